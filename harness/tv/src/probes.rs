//! C13: thread-safety and borrow lifetimes are enforced by the type system.
//!
//! The generated inputs are *programs*: probe functions compiled by rustc against the rlib
//! built from /repo (default features, guard off). The oracle is an independent model of the
//! documented auto-trait rule and a table of borrow templates with positive twins.

use std::collections::{BTreeMap, BTreeSet};
use std::path::{Path, PathBuf};
use std::process::Command;
use std::sync::Mutex;
use std::time::Instant;

use proptest::prelude::*;
use proptest::strategy::ValueTree;
use proptest::test_runner::{Config, RngSeed, TestRunner};
use rt::run::{verif_root, Tier};
use serde_json::{json, Value};

#[derive(Clone, Debug)]
pub struct Probe {
    pub class: &'static str, // "auto" | "borrow"
    pub name: String,
    pub body: String,
    pub expect_reject: bool,
    pub what: String,
    pub nontrivial: bool,
}

// ---------------------------------------------------------------------------------
// payload type grammar with its auto-trait model
// ---------------------------------------------------------------------------------
#[derive(Clone, Debug)]
pub enum Ty {
    U8,
    Cell,
    Guard,
    Rc,
    RawPtr,
    Opt(Box<Ty>),
    Tup(Box<Ty>),
    Arr(Box<Ty>),
    Boxed(Box<Ty>),
    Vecd(Box<Ty>),
    TArc(Box<Ty>),
    Mutexd(Box<Ty>),
    Ref(Box<Ty>),
    Phantom(Box<Ty>),
    StdArc(Box<Ty>),
}

impl Ty {
    pub fn src(&self) -> String {
        match self {
            Ty::U8 => "u8".into(),
            Ty::Cell => "std::cell::Cell<u8>".into(),
            Ty::Guard => "std::sync::MutexGuard<'static, u8>".into(),
            Ty::Rc => "std::rc::Rc<u8>".into(),
            Ty::RawPtr => "*const u8".into(),
            Ty::Opt(t) => format!("Option<{}>", t.src()),
            Ty::Tup(t) => format!("({}, u8)", t.src()),
            Ty::Arr(t) => format!("[{}; 2]", t.src()),
            Ty::Boxed(t) => format!("Box<{}>", t.src()),
            Ty::Vecd(t) => format!("Vec<{}>", t.src()),
            Ty::TArc(t) => format!("triomphe::Arc<{}>", t.src()),
            Ty::Mutexd(t) => format!("std::sync::Mutex<{}>", t.src()),
            Ty::Ref(t) => format!("&'static {}", t.src()),
            Ty::Phantom(t) => format!("std::marker::PhantomData<{}>", t.src()),
            Ty::StdArc(t) => format!("std::sync::Arc<{}>", t.src()),
        }
    }
    /// (Send, Sync) by the language's rules for the std types and the documented rule for triomphe::Arc
    pub fn ss(&self) -> (bool, bool) {
        match self {
            Ty::U8 => (true, true),
            Ty::Cell => (true, false),
            Ty::Guard => (false, true),
            Ty::Rc | Ty::RawPtr => (false, false),
            Ty::Opt(t) | Ty::Tup(t) | Ty::Arr(t) | Ty::Boxed(t) | Ty::Vecd(t) | Ty::Phantom(t) => t.ss(),
            Ty::TArc(t) | Ty::StdArc(t) => {
                let (s, y) = t.ss();
                (s && y, s && y)
            }
            Ty::Mutexd(t) => {
                let (s, _) = t.ss();
                (s, s)
            }
            Ty::Ref(t) => {
                let (_, y) = t.ss();
                (y, y)
            }
        }
    }
    pub fn depth(&self) -> usize {
        match self {
            Ty::U8 | Ty::Cell | Ty::Guard | Ty::Rc | Ty::RawPtr => 0,
            Ty::Opt(t) | Ty::Tup(t) | Ty::Arr(t) | Ty::Boxed(t) | Ty::Vecd(t) | Ty::TArc(t) | Ty::Mutexd(t) | Ty::Ref(t) | Ty::Phantom(t) | Ty::StdArc(t) => 1 + t.depth(),
        }
    }
}

pub const BASES: [Ty; 5] = [Ty::U8, Ty::Cell, Ty::Guard, Ty::Rc, Ty::RawPtr];

fn ty_strategy() -> impl Strategy<Value = Ty> {
    let leaf = prop_oneof![Just(Ty::U8), Just(Ty::Cell), Just(Ty::Guard), Just(Ty::Rc), Just(Ty::RawPtr)];
    leaf.prop_recursive(3, 8, 1, |inner| {
        prop_oneof![
            inner.clone().prop_map(|t| Ty::Opt(Box::new(t))),
            inner.clone().prop_map(|t| Ty::Tup(Box::new(t))),
            inner.clone().prop_map(|t| Ty::Arr(Box::new(t))),
            inner.clone().prop_map(|t| Ty::Boxed(Box::new(t))),
            inner.clone().prop_map(|t| Ty::Vecd(Box::new(t))),
            inner.clone().prop_map(|t| Ty::TArc(Box::new(t))),
            inner.clone().prop_map(|t| Ty::Mutexd(Box::new(t))),
            inner.clone().prop_map(|t| Ty::Ref(Box::new(t))),
            inner.clone().prop_map(|t| Ty::Phantom(Box::new(t))),
            inner.prop_map(|t| Ty::StdArc(Box::new(t))),
        ]
    })
}

/// handle kinds: (name, number of payload parameters, type template, rule)
#[derive(Clone, Copy, Debug, PartialEq)]
pub enum Rule {
    /// Send <=> Sync <=> every payload Send + Sync
    ArcLike,
    /// Send <=> payload Send, Sync <=> payload Sync
    BoxLike,
}
pub const KINDS: [(&str, usize, &str, Rule); 15] = [
    // plain payload containers: structural auto traits
    ("HeaderSlice<H,T>", 2, "triomphe::HeaderSlice<{0}, {1}>", Rule::BoxLike),
    ("HeaderWithLength<H>", 1, "triomphe::HeaderWithLength<{0}>", Rule::BoxLike),
    ("HeaderSliceWithLengthProtected<H,T>", 2, "triomphe::HeaderSliceWithLengthProtected<{0}, {1}>", Rule::BoxLike),
    ("Arc<T>", 1, "triomphe::Arc<{0}>", Rule::ArcLike),
    ("ThinArc<H,T>", 2, "triomphe::ThinArc<{0}, {1}>", Rule::ArcLike),
    ("OffsetArc<T>", 1, "triomphe::OffsetArc<{0}>", Rule::ArcLike),
    ("ArcBorrow<T>", 1, "triomphe::ArcBorrow<'static, {0}>", Rule::ArcLike),
    ("ArcUnion<A,B>", 2, "triomphe::ArcUnion<{0}, {1}>", Rule::ArcLike),
    ("ArcUnionBorrow<A,B>", 2, "triomphe::ArcUnionBorrow<'static, {0}, {1}>", Rule::ArcLike),
    ("UniqueArc<T>", 1, "triomphe::UniqueArc<{0}>", Rule::BoxLike),
    ("Arc<[T]>", 1, "triomphe::Arc<[{0}]>", Rule::ArcLike),
    ("Arc<HeaderSlice<H,[T]>>", 2, "triomphe::Arc<triomphe::HeaderSlice<{0}, [{1}]>>", Rule::ArcLike),
    ("UniqueArc<[T]>", 1, "triomphe::UniqueArc<[{0}]>", Rule::BoxLike),
    ("Arc<HeaderSliceWithLengthProtected<H,T>>", 2, "triomphe::Arc<triomphe::HeaderSliceWithLengthProtected<{0}, {1}>>", Rule::ArcLike),
    ("Arc<HeaderSlice<HeaderWithLength<H>,[T]>>", 2, "triomphe::Arc<triomphe::HeaderSlice<triomphe::HeaderWithLength<{0}>, [{1}]>>", Rule::ArcLike),
];

fn instantiate(tpl: &str, a: &str, b: &str) -> String {
    tpl.replace("{0}", a).replace("{1}", b)
}

fn expected(rule: Rule, tys: &[(bool, bool)], want_send: bool) -> bool {
    match rule {
        Rule::ArcLike => tys.iter().all(|(s, y)| *s && *y),
        Rule::BoxLike => tys.iter().all(|(s, y)| if want_send { *s } else { *y }),
    }
}

pub fn auto_probe(id: usize, kind: usize, a: &Ty, b: &Ty, want_send: bool) -> Probe {
    let (kname, n, tpl, rule) = KINDS[kind];
    let ty = instantiate(tpl, &a.src(), &b.src());
    let tys: Vec<(bool, bool)> = if n == 1 { vec![a.ss()] } else { vec![a.ss(), b.ss()] };
    let ok = expected(rule, &tys, want_send);
    let tr = if want_send { "Send" } else { "Sync" };
    Probe {
        class: "auto",
        name: format!("auto_{}", id),
        body: format!("    fn need<X: ?Sized + {}>() {{}}\n    need::<{}>();", tr, ty),
        expect_reject: !ok,
        what: format!("{}: {} ({})", ty, tr, kname),
        nontrivial: !ok || a.depth() + b.depth() > 0,
    }
}

pub fn dyn_probe(id: usize, bounds: (bool, bool), want_send: bool) -> Probe {
    let mut t = "dyn std::fmt::Debug".to_string();
    if bounds.0 {
        t.push_str(" + Send");
    }
    if bounds.1 {
        t.push_str(" + Sync");
    }
    let ok = bounds.0 && bounds.1;
    let tr = if want_send { "Send" } else { "Sync" };
    Probe {
        class: "auto",
        name: format!("dyn_{}", id),
        body: format!("    fn need<X: ?Sized + {}>() {{}}\n    need::<triomphe::Arc<{}>>();", tr, t),
        expect_reject: !ok,
        what: format!("triomphe::Arc<{}>: {}", t, tr),
        nontrivial: true,
    }
}

/// unsized payloads (`[W]`, `str`, `dyn Trait + bounds`) behind every handle kind that takes `?Sized`: the
/// explicit marker impls must cover them (an `unsafe impl<T: Send + Sync> Send` without `?Sized` silently drops
/// slices, str and trait objects)
pub fn unsized_probes(start: usize) -> Vec<Probe> {
    let mut out = vec![];
    let mut id = start;
    let kinds: [(&str, &str, bool); 4] = [
        ("Arc", "triomphe::Arc<{}>", true),
        ("ArcBorrow", "triomphe::ArcBorrow<'static, {}>", true),
        ("UniqueArc", "triomphe::UniqueArc<{}>", false),
        ("Arc<HeaderSlice<(),_>>", "triomphe::Arc<triomphe::HeaderSlice<(), {}>>", true),
    ];
    // (payload source, is Send, is Sync)
    let payloads: [(&str, bool, bool); 9] = [
        ("[u8]", true, true),
        ("str", true, true),
        ("[std::cell::Cell<u8>]", true, false),
        ("[std::rc::Rc<u8>]", false, false),
        ("[std::sync::MutexGuard<'static, u8>]", false, true),
        ("dyn std::fmt::Debug + Send + Sync", true, true),
        ("dyn std::fmt::Debug + Send", true, false),
        ("dyn std::fmt::Debug + Sync", false, true),
        ("dyn std::fmt::Debug", false, false),
    ];
    for (kn, tpl, arc_like) in kinds {
        for (pl, send, sync) in payloads {
            for want_send in [true, false] {
                let ok = if arc_like { send && sync } else if want_send { send } else { sync };
                let ty = tpl.replace("{}", pl);
                let tr = if want_send { "Send" } else { "Sync" };
                out.push(Probe {
                    class: "auto",
                    name: format!("unsized_{}", id),
                    body: format!("    fn need<X: ?Sized + {}>() {{}}\n    need::<{}>();", tr, ty),
                    expect_reject: !ok,
                    what: format!("{}: {} (unsized payload behind {})", ty, tr, kn),
                    nontrivial: true,
                });
                id += 1;
            }
        }
    }
    out
}

/// `fn p<T: B>() { need::<K<T>>() }` for every bound set
pub fn generic_probe(id: usize, kind: usize, bounds: (bool, bool), want_send: bool) -> Probe {
    let (kname, n, tpl, rule) = KINDS[kind];
    let ty = instantiate(tpl, "T", if n == 2 { "U" } else { "T" });
    let mut bs = "'static".to_string();
    if bounds.0 {
        bs.push_str(" + Send");
    }
    if bounds.1 {
        bs.push_str(" + Sync");
    }
    let ok = expected(rule, &[(bounds.0, bounds.1)], want_send);
    let tr = if want_send { "Send" } else { "Sync" };
    let params = if n == 2 { format!("T: {}, U: {}", bs, bs) } else { format!("T: {}", bs) };
    Probe {
        class: "auto",
        name: format!("gen_{}", id),
        body: format!("    fn need<X: ?Sized + {}>() {{}}\n    fn g<{}>() {{ need::<{}>(); }}", tr, params, ty),
        expect_reject: !ok,
        what: format!("for all {}: {}: {} ({})", params, ty, tr, kname),
        nontrivial: true,
    }
}

// ---------------------------------------------------------------------------------
// borrow templates: (name, rejected body, accepted twin)
// ---------------------------------------------------------------------------------
pub fn borrow_templates() -> Vec<(&'static str, String, String)> {
    let mut v: Vec<(&'static str, String, String)> = vec![];
    let mk_arc = "triomphe::Arc::new(String::from(\"x\"))";
    let mk_thin = "triomphe::ThinArc::from_header_and_slice(1u8, &[1u16, 2])";
    v.push((
        "ArcBorrow outlives the Arc",
        format!("let b; {{ let a = {mk_arc}; b = a.borrow_arc(); }} let _n = b.len();"),
        format!("let a = {mk_arc}; let b = a.borrow_arc(); let _n = b.len();"),
    ));
    v.push((
        "Deref reference outlives the Arc",
        format!("let r: &String; {{ let a = {mk_arc}; r = &*a; }} let _n = r.len();"),
        format!("let a = {mk_arc}; let r: &String = &*a; let _n = r.len();"),
    ));
    v.push((
        "ArcBorrow::get reference outlives the Arc",
        format!("let r: &String; {{ let a = {mk_arc}; r = a.borrow_arc().get(); }} let _n = r.len();"),
        format!("let a = {mk_arc}; let r: &String = a.borrow_arc().get(); let _n = r.len();"),
    ));
    v.push((
        "Arc moved while an ArcBorrow is alive",
        format!("let a = {mk_arc}; let b = a.borrow_arc(); drop(a); let _n = b.len();"),
        format!("let a = {mk_arc}; let b = a.borrow_arc(); let _n = b.len(); drop(a);"),
    ));
    v.push((
        "OffsetArc::borrow_arc outlives the OffsetArc",
        format!("let b; {{ let o = triomphe::Arc::into_raw_offset({mk_arc}); b = o.borrow_arc(); }} let _n = b.len();"),
        format!("let o = triomphe::Arc::into_raw_offset({mk_arc}); let b = o.borrow_arc(); let _n = b.len();"),
    ));
    v.push((
        "OffsetArc Deref reference outlives the OffsetArc",
        format!("let r: &String; {{ let o = triomphe::Arc::into_raw_offset({mk_arc}); r = &*o; }} let _n = r.len();"),
        format!("let o = triomphe::Arc::into_raw_offset({mk_arc}); let r: &String = &*o; let _n = r.len();"),
    ));
    v.push((
        "ThinArc Deref reference outlives the ThinArc",
        format!("let r: &[u16]; {{ let t = {mk_thin}; r = &t.slice; }} let _n = r.len();"),
        format!("let t = {mk_thin}; let r: &[u16] = &t.slice; let _n = r.len();"),
    ));
    v.push((
        "ArcUnion::borrow outlives the union",
        format!("let b; {{ let u: triomphe::ArcUnion<String, u8> = triomphe::ArcUnion::from_first({mk_arc}); b = u.borrow(); }} let _f = matches!(b, triomphe::ArcUnionBorrow::First(_));"),
        format!("let u: triomphe::ArcUnion<String, u8> = triomphe::ArcUnion::from_first({mk_arc}); let b = u.borrow(); let _f = matches!(b, triomphe::ArcUnionBorrow::First(_));"),
    ));
    v.push((
        "ArcUnion::as_first outlives the union",
        format!("let b; {{ let u: triomphe::ArcUnion<String, u8> = triomphe::ArcUnion::from_first({mk_arc}); b = u.as_first(); }} let _f = b.is_some();"),
        format!("let u: triomphe::ArcUnion<String, u8> = triomphe::ArcUnion::from_first({mk_arc}); let b = u.as_first(); let _f = b.is_some();"),
    ));
    v.push((
        "ArcUnion::as_second outlives the union",
        format!("let b; {{ let u: triomphe::ArcUnion<u8, String> = triomphe::ArcUnion::from_second({mk_arc}); b = u.as_second(); }} let _f = b.is_some();"),
        format!("let u: triomphe::ArcUnion<u8, String> = triomphe::ArcUnion::from_second({mk_arc}); let b = u.as_second(); let _f = b.is_some();"),
    ));
    // callback arguments escaping
    v.push((
        "ThinArc::with_arc argument escapes the callback",
        format!("let t = {mk_thin}; let mut esc = None; t.with_arc(|a| {{ esc = Some(a); }}); let _e = esc.is_some();"),
        format!("let t = {mk_thin}; let mut esc = None; t.with_arc(|a| {{ esc = Some(a.clone()); }}); let _e = esc.is_some();"),
    ));
    v.push((
        "ThinArc::with_arc_mut argument escapes the callback",
        format!("let mut t = {mk_thin}; let mut esc = None; t.with_arc_mut(|a| {{ esc = Some(a); }}); let _e = esc.is_some();"),
        format!("let mut t = {mk_thin}; let mut esc = None; t.with_arc_mut(|a| {{ esc = Some(a.clone()); }}); let _e = esc.is_some();"),
    ));
    v.push((
        "OffsetArc::with_arc argument escapes the callback",
        format!("let o = triomphe::Arc::into_raw_offset({mk_arc}); let mut esc = None; o.with_arc(|a| {{ esc = Some(a); }}); let _e = esc.is_some();"),
        format!("let o = triomphe::Arc::into_raw_offset({mk_arc}); let mut esc = None; o.with_arc(|a| {{ esc = Some(a.clone()); }}); let _e = esc.is_some();"),
    ));
    v.push((
        "ArcBorrow::with_arc argument escapes the callback",
        format!("let a = {mk_arc}; let mut esc = None; a.borrow_arc().with_arc(|x| {{ esc = Some(x); }}); let _e = esc.is_some();"),
        format!("let a = {mk_arc}; let mut esc = None; a.borrow_arc().with_arc(|x| {{ esc = Some(x.clone()); }}); let _e = esc.is_some();"),
    ));
    v.push((
        "Arc::with_raw_offset_arc argument escapes the callback",
        format!("let a = {mk_arc}; let mut esc = None; a.with_raw_offset_arc(|o| {{ esc = Some(o); }}); let _e = esc.is_some();"),
        format!("let a = {mk_arc}; let mut esc = None; a.with_raw_offset_arc(|o| {{ esc = Some(o.clone()); }}); let _e = esc.is_some();"),
    ));
    v.push((
        "reference obtained inside with_arc returned out of the callback and outliving the ThinArc",
        format!("let r: &u8; {{ let t = {mk_thin}; r = t.with_arc(|a| &a.header.header); }} let _x = *r;"),
        format!("let t = {mk_thin}; let x: u8 = t.with_arc(|a| a.header.header); let _x = x;"),
    ));
    // &mut exclusivity
    v.push((
        "get_mut reference used across a clone",
        format!("let mut a = {mk_arc}; let m = triomphe::Arc::get_mut(&mut a).unwrap(); let c = a.clone(); m.push('y'); drop(c);"),
        format!("let mut a = {mk_arc}; let m = triomphe::Arc::get_mut(&mut a).unwrap(); m.push('y'); let c = a.clone(); drop(c);"),
    ));
    v.push((
        "make_mut reference used across a clone",
        format!("let mut a = {mk_arc}; let m = triomphe::Arc::make_mut(&mut a); let c = a.clone(); m.push('y'); drop(c);"),
        format!("let mut a = {mk_arc}; let m = triomphe::Arc::make_mut(&mut a); m.push('y'); let c = a.clone(); drop(c);"),
    ));
    v.push((
        "two make_mut references alive at once",
        format!("let mut a = {mk_arc}; let m1 = triomphe::Arc::make_mut(&mut a); let m2 = triomphe::Arc::make_mut(&mut a); m1.push('y'); m2.push('z');"),
        format!("let mut a = {mk_arc}; let m1 = triomphe::Arc::make_mut(&mut a); m1.push('y'); let m2 = triomphe::Arc::make_mut(&mut a); m2.push('z');"),
    ));
    v.push((
        "get_unique reference used across a shared borrow",
        format!("let mut a = {mk_arc}; let u = triomphe::Arc::get_unique(&mut a).unwrap(); let r = &*a; u.push('y'); let _n = r.len();"),
        format!("let mut a = {mk_arc}; let u = triomphe::Arc::get_unique(&mut a).unwrap(); u.push('y'); let r = &*a; let _n = r.len();"),
    ));
    v.push((
        "make_unique reference used across a borrow_arc",
        format!("let mut a = {mk_arc}; let u = triomphe::Arc::make_unique(&mut a); let b = a.borrow_arc(); u.push('y'); let _n = b.len();"),
        format!("let mut a = {mk_arc}; let u = triomphe::Arc::make_unique(&mut a); u.push('y'); let b = a.borrow_arc(); let _n = b.len();"),
    ));
    v.push((
        "UniqueArc DerefMut aliasing a shared reference",
        "let mut u = triomphe::UniqueArc::new(String::new()); let r: &String = &*u; let m: &mut String = &mut *u; m.push('y'); let _n = r.len();".to_string(),
        "let mut u = triomphe::UniqueArc::new(String::new()); let m: &mut String = &mut *u; m.push('y'); let r: &String = &*u; let _n = r.len();".to_string(),
    ));
    v.push((
        "OffsetArc::make_mut reference used across a clone",
        format!("let mut o = triomphe::Arc::into_raw_offset({mk_arc}); let m = o.make_mut(); let c = o.clone(); m.push('y'); drop(c);"),
        format!("let mut o = triomphe::Arc::into_raw_offset({mk_arc}); let m = o.make_mut(); m.push('y'); let c = o.clone(); drop(c);"),
    ));
    v.push((
        "with_arc_mut: get_mut reference escapes the callback",
        format!("let mut t = {mk_thin}; let mut esc: Option<&mut u8> = None; t.with_arc_mut(|a| {{ esc = triomphe::Arc::get_mut(a).map(|p| p.header_mut()); }}); let _e = esc.is_some();"),
        format!("let mut t = {mk_thin}; let mut esc: Option<u8> = None; t.with_arc_mut(|a| {{ esc = triomphe::Arc::get_mut(a).map(|p| *p.header_mut()); }}); let _e = esc.is_some();"),
    ));
    // handles outliving what their payload borrows
    v.push((
        "Arc outlives data its payload borrows",
        "let a; { let x = String::from(\"x\"); a = triomphe::Arc::new(&x); } let _n = a.len();".to_string(),
        "let x = String::from(\"x\"); let a = triomphe::Arc::new(&x); let _n = a.len();".to_string(),
    ));
    v.push((
        "Arc of a Drop payload declared before the data it borrows (dropck)",
        "struct D<'a>(&'a String); impl<'a> Drop for D<'a> { fn drop(&mut self) { let _n = self.0.len(); } } let _a; let x = String::from(\"x\"); _a = triomphe::Arc::new(D(&x));".to_string(),
        "struct D<'a>(&'a String); impl<'a> Drop for D<'a> { fn drop(&mut self) { let _n = self.0.len(); } } let x = String::from(\"x\"); let _a; _a = triomphe::Arc::new(D(&x));".to_string(),
    ));
    v.push((
        "ThinArc of a Drop header declared before the data it borrows (dropck)",
        "struct D<'a>(&'a String); impl<'a> Drop for D<'a> { fn drop(&mut self) { let _n = self.0.len(); } } let _t; let x = String::from(\"x\"); _t = triomphe::ThinArc::from_header_and_iter(D(&x), std::iter::empty::<u8>());".to_string(),
        "struct D<'a>(&'a String); impl<'a> Drop for D<'a> { fn drop(&mut self) { let _n = self.0.len(); } } let x = String::from(\"x\"); let _t; _t = triomphe::ThinArc::from_header_and_iter(D(&x), std::iter::empty::<u8>());".to_string(),
    ));
    v.push((
        "OffsetArc of a Drop payload declared before the data it borrows (dropck)",
        "struct D<'a>(&'a String); impl<'a> Drop for D<'a> { fn drop(&mut self) { let _n = self.0.len(); } } let _o; let x = String::from(\"x\"); _o = triomphe::Arc::into_raw_offset(triomphe::Arc::new(D(&x)));".to_string(),
        "struct D<'a>(&'a String); impl<'a> Drop for D<'a> { fn drop(&mut self) { let _n = self.0.len(); } } let x = String::from(\"x\"); let _o; _o = triomphe::Arc::into_raw_offset(triomphe::Arc::new(D(&x)));".to_string(),
    ));
    v.push((
        "ArcUnion of a Drop payload declared before the data it borrows (dropck)",
        "struct D<'a>(&'a String); impl<'a> Drop for D<'a> { fn drop(&mut self) { let _n = self.0.len(); } } let _u: triomphe::ArcUnion<D, u8>; let x = String::from(\"x\"); _u = triomphe::ArcUnion::from_first(triomphe::Arc::new(D(&x)));".to_string(),
        "struct D<'a>(&'a String); impl<'a> Drop for D<'a> { fn drop(&mut self) { let _n = self.0.len(); } } let x = String::from(\"x\"); let _u: triomphe::ArcUnion<D, u8>; _u = triomphe::ArcUnion::from_first(triomphe::Arc::new(D(&x)));".to_string(),
    ));
    v.push((
        "UniqueArc of a Drop payload declared before the data it borrows (dropck)",
        "struct D<'a>(&'a String); impl<'a> Drop for D<'a> { fn drop(&mut self) { let _n = self.0.len(); } } let _u; let x = String::from(\"x\"); _u = triomphe::UniqueArc::new(D(&x));".to_string(),
        "struct D<'a>(&'a String); impl<'a> Drop for D<'a> { fn drop(&mut self) { let _n = self.0.len(); } } let x = String::from(\"x\"); let _u; _u = triomphe::UniqueArc::new(D(&x));".to_string(),
    ));
    v.push((
        "Arc<[T]> of Drop elements declared before the data they borrow (dropck)",
        "struct D<'a>(&'a String); impl<'a> Drop for D<'a> { fn drop(&mut self) { let _n = self.0.len(); } } let _a: triomphe::Arc<[D]>; let x = String::from(\"x\"); _a = triomphe::Arc::from(vec![D(&x)]);".to_string(),
        "struct D<'a>(&'a String); impl<'a> Drop for D<'a> { fn drop(&mut self) { let _n = self.0.len(); } } let x = String::from(\"x\"); let _a: triomphe::Arc<[D]>; _a = triomphe::Arc::from(vec![D(&x)]);".to_string(),
    ));
    v.push((
        "Arc<HeaderSlice<H,[T]>> with a Drop header declared before the data it borrows (dropck)",
        "struct D<'a>(&'a String); impl<'a> Drop for D<'a> { fn drop(&mut self) { let _n = self.0.len(); } } let _a; let x = String::from(\"x\"); _a = triomphe::Arc::from_header_and_vec(D(&x), vec![1u8]);".to_string(),
        "struct D<'a>(&'a String); impl<'a> Drop for D<'a> { fn drop(&mut self) { let _n = self.0.len(); } } let x = String::from(\"x\"); let _a; _a = triomphe::Arc::from_header_and_vec(D(&x), vec![1u8]);".to_string(),
    ));
    v.push((
        "ThinArc outlives data its elements borrow",
        "let t; { let x = 5u8; t = triomphe::ThinArc::from_header_and_slice((), &[&x]); } let _n = t.slice.len();".to_string(),
        "let x = 5u8; let t = triomphe::ThinArc::from_header_and_slice((), &[&x]); let _n = t.slice.len();".to_string(),
    ));
    // every public function returning a reference: the reference cannot outlive / alias
    v.push((
        "UniqueArc::write reference outlives the UniqueArc",
        "let r: &mut String; { let mut u = triomphe::UniqueArc::<String>::new_uninit(); r = u.write(String::new()); } r.push('x');".to_string(),
        "let mut u = triomphe::UniqueArc::<String>::new_uninit(); let r: &mut String = u.write(String::new()); r.push('x');".to_string(),
    ));
    v.push((
        "two UniqueArc::write references alive at once",
        "let mut u = triomphe::UniqueArc::<String>::new_uninit(); let a = u.write(String::new()); let b = u.write(String::new()); a.push('x'); b.push('y');".to_string(),
        "let mut u = triomphe::UniqueArc::<String>::new_uninit(); let a = u.write(String::new()); a.push('x'); let b = u.write(String::new()); b.push('y');".to_string(),
    ));
    v.push((
        "deprecated Arc::write reference outlives the Arc",
        "let r: &mut String; { let mut a = triomphe::Arc::<std::mem::MaybeUninit<String>>::new_uninit(); r = a.write(String::new()); } r.push('x');".to_string(),
        "let mut a = triomphe::Arc::<std::mem::MaybeUninit<String>>::new_uninit(); let r: &mut String = a.write(String::new()); r.push('x');".to_string(),
    ));
    v.push((
        "deprecated as_mut_slice reference outlives the Arc",
        "let r: &mut [std::mem::MaybeUninit<u8>]; { let mut a = triomphe::Arc::<[std::mem::MaybeUninit<u8>]>::new_uninit_slice(3); r = a.as_mut_slice(); } let _n = r.len();".to_string(),
        "let mut a = triomphe::Arc::<[std::mem::MaybeUninit<u8>]>::new_uninit_slice(3); let r: &mut [std::mem::MaybeUninit<u8>] = a.as_mut_slice(); let _n = r.len();".to_string(),
    ));
    v.push((
        "Protected::header_mut and slice_mut references alive at once",
        format!("let mut t = {mk_thin}; t.with_arc_mut(|a| {{ let p = triomphe::Arc::get_mut(a).unwrap(); let h = p.header_mut(); let s = p.slice_mut(); *h = 1; s[0] = 1; }});"),
        format!("let mut t = {mk_thin}; t.with_arc_mut(|a| {{ let p = triomphe::Arc::get_mut(a).unwrap(); let h = p.header_mut(); *h = 1; let s = p.slice_mut(); s[0] = 1; }});"),
    ));
    v.push((
        "UniqueArc Deref reference outlives the UniqueArc",
        "let r: &String; { let u = triomphe::UniqueArc::new(String::new()); r = &*u; } let _n = r.len();".to_string(),
        "let u = triomphe::UniqueArc::new(String::new()); let r: &String = &*u; let _n = r.len();".to_string(),
    ));
    v.push((
        "ArcBorrow Deref reference outlives the ArcBorrow's source",
        format!("let r: &String; {{ let a = {mk_arc}; let b = a.borrow_arc(); r = &*b; }} let _n = r.len();"),
        format!("let a = {mk_arc}; let b = a.borrow_arc(); let r: &String = &*b; let _n = r.len();"),
    ));
    v.push((
        "Borrow::borrow reference outlives the Arc",
        format!("let r: &String; {{ let a = {mk_arc}; r = std::borrow::Borrow::borrow(&a); }} let _n = r.len();"),
        format!("let a = {mk_arc}; let r: &String = std::borrow::Borrow::borrow(&a); let _n = r.len();"),
    ));
    v.push((
        "AsRef::as_ref reference outlives the Arc",
        format!("let r: &String; {{ let a = {mk_arc}; r = a.as_ref(); }} let _n = r.len();"),
        format!("let a = {mk_arc}; let r: &String = a.as_ref(); let _n = r.len();"),
    ));
    v.push((
        "second-variant ArcUnion outlives data its payload borrows",
        "let u: triomphe::ArcUnion<u8, &String>; { let x = String::new(); u = triomphe::ArcUnion::from_second(triomphe::Arc::new(&x)); } let _s = u.is_second();".to_string(),
        "let x = String::new(); let u: triomphe::ArcUnion<u8, &String> = triomphe::ArcUnion::from_second(triomphe::Arc::new(&x)); let _s = u.is_second();".to_string(),
    ));
    v.push((
        "first-variant ArcUnion outlives data its payload borrows",
        "let u: triomphe::ArcUnion<&String, u8>; { let x = String::new(); u = triomphe::ArcUnion::from_first(triomphe::Arc::new(&x)); } let _s = u.is_first();".to_string(),
        "let x = String::new(); let u: triomphe::ArcUnion<&String, u8> = triomphe::ArcUnion::from_first(triomphe::Arc::new(&x)); let _s = u.is_first();".to_string(),
    ));
    // variance: a payload lifetime can be shortened (legal twin) but never lengthened, in every parameter position
    for (name, long, short) in [
        ("Arc<T>", "triomphe::Arc<&'static u8>", "triomphe::Arc<&'a u8>"),
        ("Arc<[T]>", "triomphe::Arc<[&'static u8]>", "triomphe::Arc<[&'a u8]>"),
        ("OffsetArc<T>", "triomphe::OffsetArc<&'static u8>", "triomphe::OffsetArc<&'a u8>"),
        ("UniqueArc<T>", "triomphe::UniqueArc<&'static u8>", "triomphe::UniqueArc<&'a u8>"),
        ("ThinArc<H,_>", "triomphe::ThinArc<&'static u8, u8>", "triomphe::ThinArc<&'a u8, u8>"),
        ("ThinArc<_,T>", "triomphe::ThinArc<u8, &'static u8>", "triomphe::ThinArc<u8, &'a u8>"),
        ("ArcUnion<A,_>", "triomphe::ArcUnion<&'static u8, u8>", "triomphe::ArcUnion<&'a u8, u8>"),
        ("ArcUnion<_,B>", "triomphe::ArcUnion<u8, &'static u8>", "triomphe::ArcUnion<u8, &'a u8>"),
        ("ArcBorrow<'b,T> in T", "triomphe::ArcBorrow<'a, &'static u8>", "triomphe::ArcBorrow<'a, &'a u8>"),
        ("ArcBorrow<'b,T> in 'b", "triomphe::ArcBorrow<'static, u8>", "triomphe::ArcBorrow<'a, u8>"),
        ("ArcUnionBorrow<'b,A,B> in 'b", "triomphe::ArcUnionBorrow<'static, u8, u16>", "triomphe::ArcUnionBorrow<'a, u8, u16>"),
        ("ArcUnionBorrow<'b,A,B> in B", "triomphe::ArcUnionBorrow<'a, u8, &'static u8>", "triomphe::ArcUnionBorrow<'a, u8, &'a u8>"),
        ("Arc<HeaderSlice<H,[T]>> in H", "triomphe::Arc<triomphe::HeaderSlice<&'static u8, [u8]>>", "triomphe::Arc<triomphe::HeaderSlice<&'a u8, [u8]>>"),
    ] {
        v.push((
            Box::leak(format!("lengthening a payload lifetime through {}", name).into_boxed_str()),
            format!("fn lengthen<'a>(x: {short}) -> {long} {{ x }}"),
            format!("fn shorten<'a>(x: {long}) -> {short} {{ x }}"),
        ));
    }
    v.push((
        "sending an Arc of a non-Send payload to a thread",
        "let a = triomphe::Arc::new(std::cell::Cell::new(1u8)); std::thread::spawn(move || { a.set(2); });".to_string(),
        "let a = triomphe::Arc::new(std::sync::atomic::AtomicU8::new(1)); std::thread::spawn(move || { a.store(2, std::sync::atomic::Ordering::Relaxed); });".to_string(),
    ));
    v
}

/// documented-unsafe functions must stay unsafe: a call outside an unsafe block is rejected (E0133); and the
/// mutating entry points must keep asking for `&mut` (E0596 on an immutable binding)
pub fn unsafe_templates() -> Vec<(&'static str, &'static str, String, String)> {
    let mut v: Vec<(&'static str, &'static str, String, String)> = vec![];
    let mut u = |name: &'static str, setup: &str, call: &str| {
        v.push(("unsafe", name, format!("{} let _r = {};", setup, call), format!("{} let _r = unsafe {{ {} }};", setup, call)));
    };
    u("Arc::from_raw", "let p = triomphe::Arc::into_raw(triomphe::Arc::new(1u8));", "triomphe::Arc::from_raw(p)");
    u("Arc::from_raw_slice", "let a: triomphe::Arc<[u8]> = triomphe::Arc::from(vec![1u8]); let p = triomphe::Arc::into_raw(a);", "triomphe::Arc::from_raw_slice(p)");
    u("ArcBorrow::from_ptr", "let a = triomphe::Arc::new(1u8); let p = triomphe::Arc::as_ptr(&a);", "triomphe::ArcBorrow::from_ptr(p)");
    u("ThinArc::from_raw", "let p = triomphe::ThinArc::from_header_and_slice(1u8, &[1u16]).into_raw();", "triomphe::ThinArc::<u8, u16>::from_raw(p)");
    u("Arc<MaybeUninit<T>>::assume_init", "let a = triomphe::Arc::<std::mem::MaybeUninit<u8>>::new_uninit();", "a.assume_init()");
    u("Arc<[MaybeUninit<T>]>::assume_init", "let a = triomphe::Arc::<[std::mem::MaybeUninit<u8>]>::new_uninit_slice(2);", "a.assume_init()");
    u("UniqueArc<MaybeUninit<T>>::assume_init", "let a = triomphe::UniqueArc::<u8>::new_uninit();", "triomphe::UniqueArc::assume_init(a)");
    u("UniqueArc<[MaybeUninit<T>]>::assume_init_slice", "let a = triomphe::UniqueArc::<[std::mem::MaybeUninit<u8>]>::new_uninit_slice(2);", "triomphe::UniqueArc::assume_init_slice(a)");
    u("UniqueArc<HeaderSlice<H,[MaybeUninit<T>]>>::assume_init_slice_with_header", "let a = triomphe::UniqueArc::<triomphe::HeaderSlice<u8, [std::mem::MaybeUninit<u8>]>>::from_header_and_uninit_slice(1u8, 2);", "a.assume_init_slice_with_header()");
    let mut m = |name: &'static str, bind: &str, call: &str| {
        v.push(("mut", name, format!("let a = {}; {};", bind, call), format!("let mut a = {}; {};", bind, call)));
    };
    let arc = "triomphe::Arc::new(1u8)";
    m("Arc::get_mut needs &mut", arc, "let _r = triomphe::Arc::get_mut(&mut a)");
    m("Arc::make_mut needs &mut", arc, "let _r = triomphe::Arc::make_mut(&mut a)");
    m("Arc::make_unique needs &mut", arc, "let _r = triomphe::Arc::make_unique(&mut a)");
    m("Arc::get_unique needs &mut", arc, "let _r = triomphe::Arc::get_unique(&mut a)");
    m("OffsetArc::make_mut needs &mut", "triomphe::Arc::into_raw_offset(triomphe::Arc::new(1u8))", "let _r = a.make_mut()");
    m("ThinArc::with_arc_mut needs &mut", "triomphe::ThinArc::from_header_and_slice(1u8, &[1u16])", "a.with_arc_mut(|_x| ())");
    m("UniqueArc DerefMut needs &mut", "triomphe::UniqueArc::new(1u8)", "*a = 2");
    m("Arc<MaybeUninit<T>>::as_mut_ptr needs &mut", "triomphe::Arc::<std::mem::MaybeUninit<u8>>::new_uninit()", "let _p = a.as_mut_ptr()");
    m("UniqueArc<MaybeUninit<T>>::write needs &mut", "triomphe::UniqueArc::<u8>::new_uninit()", "let _r = a.write(1)");
    m("HeaderSliceWithLengthProtected::slice_mut needs &mut", "triomphe::Arc::protected_from_thin(triomphe::ThinArc::from_header_and_slice(1u8, &[1u16]))", "let _r = triomphe::Arc::get_mut(&mut a).map(|p| { p.slice_mut(); p.header_mut(); })");
    v
}

/// API that must NOT exist because it would let safe code break an invariant the handles rely on: a
/// UniqueArc lending its inner Arc (clonable => no longer unique), Clone for UniqueArc, mutable access
/// through shared handles. (class "noapi": rejected with a trait-bound / method-resolution / mutability error)
pub fn noapi_templates() -> Vec<(&'static str, String, String)> {
    let mut v: Vec<(&'static str, String, String)> = vec![];
    let mut t = |name: &'static str, neg: &str, pos: &str| v.push((name, neg.to_string(), pos.to_string()));
    t("UniqueArc must not be Clone", "fn need<X: Clone>() {} need::<triomphe::UniqueArc<u8>>();", "fn need<X: Clone>() {} need::<triomphe::Arc<u8>>();");
    t("UniqueArc must not lend its inner Arc through AsRef", "fn f(u: &triomphe::UniqueArc<u8>) -> &triomphe::Arc<u8> { u.as_ref() }", "fn f(u: &triomphe::Arc<u8>) -> &u8 { u.as_ref() }");
    t("UniqueArc must not lend its inner Arc through Borrow", "fn f(u: &triomphe::UniqueArc<u8>) -> &triomphe::Arc<u8> { std::borrow::Borrow::borrow(u) }", "fn f(u: &triomphe::Arc<u8>) -> &u8 { std::borrow::Borrow::borrow(u) }");
    t("UniqueArc must not deref to its inner Arc", "fn f(u: &triomphe::UniqueArc<u8>) -> &triomphe::Arc<u8> { &**u }", "fn f(u: &triomphe::UniqueArc<u8>) -> &u8 { &**u }");
    t("&UniqueArc must not convert into an Arc", "fn f(u: &triomphe::UniqueArc<u8>) -> triomphe::Arc<u8> { u.into() }", "fn f(u: triomphe::UniqueArc<u8>) -> triomphe::Arc<u8> { u.shareable() }");
    t("Arc must not give mutable access through Deref", "let mut a = triomphe::Arc::new(1u8); *a = 2;", "let mut a = triomphe::UniqueArc::new(1u8); *a = 2;");
    t("Arc must not be AsMut", "fn f(a: &mut triomphe::Arc<u8>) -> &mut u8 { a.as_mut() }", "fn f(a: &mut triomphe::Arc<u8>) -> Option<&mut u8> { triomphe::Arc::get_mut(a) }");
    t("OffsetArc must not give mutable access through Deref", "let mut a = triomphe::Arc::into_raw_offset(triomphe::Arc::new(1u8)); *a = 2;", "let mut a = triomphe::Arc::into_raw_offset(triomphe::Arc::new(1u8)); *a.make_mut() = 2;");
    t("ThinArc must not give mutable access through Deref", "let mut t = triomphe::ThinArc::from_header_and_slice(1u8, &[1u16]); t.header.header = 2;", "let t = triomphe::ThinArc::from_header_and_slice(1u8, &[1u16]); let _h = t.header.header;");
    t("ArcBorrow must not give mutable access", "let a = triomphe::Arc::new(1u8); let mut b = a.borrow_arc(); *b = 2;", "let a = triomphe::Arc::new(1u8); let b = a.borrow_arc(); let _x = *b;");
    t("the recorded length behind a Protected header must not be writable from safe code", "let mut t = triomphe::ThinArc::from_header_and_slice(1u8, &[1u16, 2]); t.with_arc_mut(|a| { triomphe::Arc::get_mut(a).unwrap().header.length = 1000; });", "let mut t = triomphe::ThinArc::from_header_and_slice(1u8, &[1u16, 2]); t.with_arc_mut(|a| { *triomphe::Arc::get_mut(a).unwrap().header_mut() = 2; });");
    t("the Protected type must not deref to the unchecked header slice", "fn f(p: &mut triomphe::HeaderSliceWithLengthProtected<u8, u16>) -> &mut triomphe::HeaderSlice<triomphe::HeaderWithLength<u8>, [u16]> { &mut **p }", "fn f(p: &mut triomphe::HeaderSliceWithLengthProtected<u8, u16>) -> &mut [u16] { p.slice_mut() }");
    t("ArcBorrow must not be constructible from a plain reference by From/Into", "fn f(r: &u8) -> triomphe::ArcBorrow<'_, u8> { r.into() }", "fn f(a: &triomphe::Arc<u8>) -> triomphe::ArcBorrow<'_, u8> { a.borrow_arc() }");
    v
}

pub fn noapi_probes() -> Vec<Probe> {
    let mut out = vec![];
    for (i, (name, neg, pos)) in noapi_templates().into_iter().enumerate() {
        out.push(Probe { class: "noapi", name: format!("nneg_{}", i), body: format!("    {}", neg), expect_reject: true, what: format!("{} [must be rejected]", name), nontrivial: true });
        out.push(Probe { class: "noapi", name: format!("npos_{}", i), body: format!("    {}", pos), expect_reject: false, what: format!("{} [legal twin, must compile]", name), nontrivial: false });
    }
    out
}

pub fn unsafe_probes() -> Vec<Probe> {
    let mut out = vec![];
    for (i, (class, name, neg, pos)) in unsafe_templates().into_iter().enumerate() {
        let why = if class == "unsafe" { "a documented-unsafe function called outside an unsafe block" } else { "a mutating entry point called on an immutable binding" };
        out.push(Probe { class, name: format!("uneg_{}", i), body: format!("    {}", neg), expect_reject: true, what: format!("{}: {} [must be rejected]", name, why), nontrivial: true });
        out.push(Probe { class, name: format!("upos_{}", i), body: format!("    {}", pos), expect_reject: false, what: format!("{} [legal twin, must compile]", name), nontrivial: false });
    }
    out
}

/// A line-based inventory of the public surface of /repo/src: every `impl` header and every `pub fn` under it.
/// Compared with /verif/api_baseline.txt (generated from the pinned tree by `tv api-inventory`): items that are
/// NEW are listed in the run's output and evidence as "not covered by any check". They are not violations — a new
/// item may be perfectly sound — but no enumeration in this directory can have listed them.
pub fn api_inventory() -> Vec<String> {
    let repo = std::env::var("VERIF_REPO").unwrap_or_else(|_| "/repo".into());
    let mut out = vec![];
    let mut files: Vec<std::path::PathBuf> = std::fs::read_dir(format!("{}/src", repo)).map(|rd| rd.flatten().map(|e| e.path()).collect()).unwrap_or_default();
    files.sort();
    for f in files {
        let name = f.file_name().map(|n| n.to_string_lossy().into_owned()).unwrap_or_default();
        if name == "verif_hooks.rs" || !name.ends_with(".rs") {
            continue;
        }
        let txt = std::fs::read_to_string(&f).unwrap_or_default();
        let mut cur = String::new();
        let mut in_tests = false;
        for l in txt.lines() {
            let t = l.trim();
            if t.starts_with("#[cfg(test)]") || t.starts_with("mod tests") {
                in_tests = true;
            }
            if in_tests {
                continue;
            }
            if !l.starts_with(' ') && (t.starts_with("impl") || t.starts_with("unsafe impl")) {
                cur = t.trim_end_matches('{').trim().to_string();
                if cur.contains(" for ") {
                    out.push(format!("{} :: {}", name, cur));
                }
            } else if let Some(i) = t.find("pub fn ").or_else(|| t.find("pub unsafe fn ")).or_else(|| t.find("pub const fn ")) {
                if t[..i].trim().is_empty() || t[..i].trim().starts_with("#[") {
                    let sig: String = t[i..].split('(').next().unwrap_or("").to_string();
                    out.push(format!("{} :: {} :: {}", name, cur, sig));
                }
            }
        }
    }
    out.sort();
    out.dedup();
    out
}

pub fn new_api_items() -> Vec<String> {
    let base = std::fs::read_to_string(verif_root().join("api_baseline.txt")).unwrap_or_default();
    let known: BTreeSet<&str> = base.lines().collect();
    if known.is_empty() {
        return vec![];
    }
    api_inventory().into_iter().filter(|i| !known.contains(i.as_str())).collect()
}

/// names of the `pub unsafe fn`s in /repo/src that no unsafe template mentions (the list above is written by
/// hand; this keeps it honest without turning a new function into an alarm)
pub fn unlisted_unsafe_fns() -> Vec<String> {
    let repo = std::env::var("VERIF_REPO").unwrap_or_else(|_| "/repo".into());
    let listed: String = unsafe_templates().iter().map(|t| t.2.clone()).collect::<Vec<_>>().join(" ");
    let mut out = vec![];
    if let Ok(rd) = std::fs::read_dir(format!("{}/src", repo)) {
        for e in rd.flatten() {
            if e.file_name().to_string_lossy() == "verif_hooks.rs" {
                continue;
            }
            let txt = std::fs::read_to_string(e.path()).unwrap_or_default();
            for l in txt.lines() {
                if let Some(i) = l.find("pub unsafe fn ") {
                    let name: String = l[i + 14..].chars().take_while(|c| c.is_alphanumeric() || *c == '_').collect();
                    if !listed.contains(&format!("{}(", name)) && !out.contains(&name) {
                        out.push(name);
                    }
                }
            }
        }
    }
    out
}

const BORROW_CODES: [&str; 13] = ["E0621", "LIFETIME", "E0499", "E0502", "E0505", "E0506", "E0515", "E0521", "E0597", "E0716", "E0373", "E0503", "E0713"];

pub fn borrow_probes() -> Vec<Probe> {
    let mut out = vec![];
    for (i, (name, neg, pos)) in borrow_templates().into_iter().enumerate() {
        let class = if name.starts_with("sending") { "auto" } else { "borrow" };
        out.push(Probe { class, name: format!("neg_{}", i), body: format!("    {}", neg), expect_reject: true, what: format!("{} [must be rejected]", name), nontrivial: true });
        out.push(Probe { class: "borrow", name: format!("pos_{}", i), body: format!("    {}", pos), expect_reject: false, what: format!("{} [legal twin, must compile]", name), nontrivial: false });
    }
    out
}

// ---------------------------------------------------------------------------------
// compiling batches
// ---------------------------------------------------------------------------------
pub struct Lib {
    pub rlib: PathBuf,
    pub deps: PathBuf,
    /// Some("+nightly") for the dropck-eyepatch configuration
    pub toolchain: Option<&'static str>,
}

/// build /repo (default features, guard off) as an rlib for the probes
pub fn build_lib() -> Result<Lib, String> {
    build_lib_with(None, &[], "probe")
}

/// the nightly-only `unstable_dropck_eyepatch` configuration (`unsafe impl<#[may_dangle] T> Drop for Arc<T>`):
/// dropck then relies on the PhantomData<T> marker alone
pub fn build_lib_eyepatch() -> Result<Lib, String> {
    build_lib_with(Some("+nightly"), &["--features", "unstable_dropck_eyepatch"], "probe-eyepatch")
}

fn build_lib_with(toolchain: Option<&'static str>, extra: &[&str], dirname: &str) -> Result<Lib, String> {
    let td = verif_root().join("harness/target").join(dirname);
    let mut cmd = Command::new("cargo");
    if let Some(t) = toolchain {
        cmd.arg(t);
    }
    let o = cmd
        .args(["build", "--release", "--offline", "--manifest-path", &format!("{}/Cargo.toml", std::env::var("VERIF_REPO").unwrap_or_else(|_| "/repo".into()))])
        .args(extra)
        .arg("--target-dir")
        .arg(&td)
        .env("RUSTFLAGS", "")
        .env_remove("CARGO_ENCODED_RUSTFLAGS")
        .output()
        .map_err(|e| format!("cargo: {}", e))?;
    if !o.status.success() {
        return Err(format!("building /repo for the probes failed:\n{}", String::from_utf8_lossy(&o.stderr)));
    }
    let rlib = td.join("release/libtriomphe.rlib");
    if !rlib.exists() {
        return Err("libtriomphe.rlib not found".into());
    }
    Ok(Lib { rlib, deps: td.join("release/deps"), toolchain })
}

pub struct BatchResult {
    /// probe index -> error codes seen inside its function
    pub codes: BTreeMap<usize, Vec<String>>,
    pub other: Vec<String>,
}

pub fn compile_batch(lib: &Lib, dir: &Path, tag: &str, probes: &[&Probe]) -> Result<BatchResult, String> {
    let mut src = String::from("#![allow(unused, dead_code, deprecated, dropping_references, dropping_copy_types)]\n");
    let mut ranges: Vec<(usize, usize)> = vec![];
    let mut line = 2;
    for p in probes {
        let start = line;
        let f = format!("pub fn {}() {{\n{}\n}}\n", p.name, p.body);
        line += f.matches('\n').count();
        ranges.push((start, line - 1));
        src.push_str(&f);
    }
    let file = dir.join(format!("{}.rs", tag));
    std::fs::write(&file, &src).map_err(|e| e.to_string())?;
    let mut rustc = Command::new("rustc");
    if let Some(t) = lib.toolchain {
        rustc.arg(t);
    }
    let o = rustc
        .args(["--edition", "2021", "--crate-type", "lib", "--emit=metadata", "--error-format=json", "-o"])
        .arg(dir.join(format!("{}.rmeta", tag)))
        .arg("-L")
        .arg(format!("dependency={}", lib.deps.display()))
        .arg("--extern")
        .arg(format!("triomphe={}", lib.rlib.display()))
        .arg(&file)
        .env_remove("RUSTFLAGS")
        .output()
        .map_err(|e| format!("rustc: {}", e))?;
    let mut codes: BTreeMap<usize, Vec<String>> = BTreeMap::new();
    let mut other = vec![];
    for l in String::from_utf8_lossy(&o.stderr).lines() {
        let Ok(v) = serde_json::from_str::<Value>(l) else { continue };
        if v["level"] != "error" {
            continue;
        }
        let mut code = v["code"]["code"].as_str().unwrap_or("").to_string();
        let msg = v["message"].as_str().unwrap_or("");
        if code.is_empty() && (msg.contains("lifetime may not live long enough") || msg.contains("cannot escape") || msg.contains("captured variable")) {
            // region errors of the borrow checker carry no error code
            code = "LIFETIME".to_string();
        }
        let spans = v["spans"].as_array().cloned().unwrap_or_default();
        let ln = spans.iter().find(|s| s["is_primary"] == true).or(spans.first()).and_then(|s| s["line_start"].as_u64());
        match ln {
            Some(ln) => match ranges.iter().position(|(a, b)| ln as usize >= *a && ln as usize <= *b) {
                Some(i) => codes.entry(i).or_default().push(code),
                None => other.push(format!("{} at line {}: {}", code, ln, v["message"])),
            },
            None => {
                if code.is_empty() && v["message"].as_str().map(|m| m.starts_with("aborting due to")).unwrap_or(false) {
                    continue;
                }
                other.push(format!("{}: {}", code, v["message"]));
            }
        }
    }
    Ok(BatchResult { codes, other })
}

fn verdict(p: &Probe, codes: &[String]) -> Result<(), String> {
    let allowed: Vec<&str> = match p.class {
        "auto" => vec!["E0277"],
        "unsafe" => vec!["E0133"],
        "mut" => vec!["E0596"],
        "noapi" => vec!["E0277", "E0599", "E0594", "E0308", "E0596", "E0614", "E0282", "E0609", "E0610", "E0615", "E0616"],
        _ => BORROW_CODES.to_vec(),
    };
    if p.expect_reject {
        if codes.is_empty() {
            return Err(format!("ACCEPTED but must be rejected: {}", p.what));
        }
        if !codes.iter().any(|c| allowed.contains(&c.as_str())) {
            return Err(format!("INFRA: rejected with unexpected error codes {:?}: {}", codes, p.what));
        }
        Ok(())
    } else {
        if codes.is_empty() {
            return Ok(());
        }
        if codes.iter().all(|c| allowed.contains(&c.as_str())) {
            return Err(format!("REJECTED ({:?}) but must compile: {}", codes, p.what));
        }
        Err(format!("INFRA: unexpected error codes {:?}: {}", codes, p.what))
    }
}

pub fn generate(tier: Tier, seed: u64) -> Vec<Probe> {
    let mut v: Vec<Probe> = vec![];
    let mut id = 0;
    // complete base grid: every kind x witnesses of the four auto-trait classes x {Send, Sync}
    for k in 0..KINDS.len() {
        let n = KINDS[k].1;
        for a in BASES.iter() {
            let bs: Vec<&Ty> = if n == 2 { BASES.iter().collect() } else { vec![&Ty::U8] };
            for b in bs {
                for ws in [true, false] {
                    v.push(auto_probe(id, k, a, b, ws));
                    id += 1;
                }
            }
        }
        for bounds in [(false, false), (true, false), (false, true), (true, true)] {
            for ws in [true, false] {
                v.push(generic_probe(id, k, bounds, ws));
                id += 1;
            }
        }
    }
    for bounds in [(false, false), (true, false), (false, true), (true, true)] {
        for ws in [true, false] {
            v.push(dyn_probe(id, bounds, ws));
            id += 1;
        }
    }
    let us = unsized_probes(id);
    id += us.len();
    v.extend(us);
    v.extend(borrow_probes());
    // the same borrow / dropck templates against the nightly `unstable_dropck_eyepatch` configuration, where
    // Arc's Drop impl is `#[may_dangle]` and only the PhantomData<T> marker keeps dropck honest
    for p in borrow_probes() {
        if p.class == "borrow" {
            v.push(Probe { class: "borrow-eyepatch", name: format!("ey_{}", p.name), body: p.body.clone(), expect_reject: p.expect_reject, what: format!("[--features unstable_dropck_eyepatch, nightly] {}", p.what), nontrivial: p.nontrivial });
        }
    }
    v.extend(unsafe_probes());
    v.extend(noapi_probes());
    // random nested payload types
    let n_random = if tier == Tier::Quick { 900 } else { 16_000 };
    let mut cfg = Config::default();
    cfg.failure_persistence = None;
    cfg.rng_seed = RngSeed::Fixed(seed.wrapping_mul(7919).wrapping_add(13));
    let mut runner = TestRunner::new(cfg);
    let strat = (0..KINDS.len(), ty_strategy(), ty_strategy(), any::<bool>());
    for _ in 0..n_random {
        let t = strat.new_tree(&mut runner).unwrap().current();
        v.push(auto_probe(id, t.0, &t.1, &t.2, t.3));
        id += 1;
    }
    v
}

pub fn run_parent(tier: Tier, seed: u64) -> i32 {
    let start = Instant::now();
    let lib = match build_lib() {
        Ok(l) => l,
        Err(e) => {
            eprintln!("{}", e);
            return 2;
        }
    };
    let probes = generate(tier, seed);
    let unlisted = unlisted_unsafe_fns();
    if !unlisted.is_empty() {
        println!("note: `pub unsafe fn`s in /repo/src without an unsafe-call probe (extend unsafe_templates): {:?}", unlisted);
    }
    let new_api = new_api_items();
    for i in &new_api {
        println!("NEW-API (not covered by any check; review by hand): {}", i);
    }
    let dir = std::env::temp_dir().join(format!("tv-probes-{}", std::process::id()));
    let _ = std::fs::remove_dir_all(&dir);
    std::fs::create_dir_all(&dir).unwrap();
    // batches per class (trait errors stop the compiler before borrow checking)
    let lib_ey = match build_lib_eyepatch() {
        Ok(l) => Some(l),
        Err(e) => {
            println!("note: the unstable_dropck_eyepatch probes are skipped (nightly build failed: {})", e.lines().last().unwrap_or(""));
            None
        }
    };
    let mut batches: Vec<Vec<usize>> = vec![];
    for class in ["auto", "borrow", "unsafe", "mut", "noapi", "borrow-eyepatch"] {
        if class == "borrow-eyepatch" && lib_ey.is_none() {
            continue;
        }
        let idx: Vec<usize> = (0..probes.len()).filter(|i| probes[*i].class == class).collect();
        for ch in idx.chunks(if class == "auto" { 24 } else { 8 }) {
            batches.push(ch.to_vec());
        }
    }
    let next = Mutex::new(0usize);
    let results: Mutex<Vec<(usize, Result<(), String>)>> = Mutex::new(vec![]);
    let infra: Mutex<Vec<String>> = Mutex::new(vec![]);
    std::thread::scope(|s| {
        for _ in 0..16 {
            s.spawn(|| loop {
                let bi = {
                    let mut n = next.lock().unwrap();
                    let b = *n;
                    *n += 1;
                    b
                };
                if bi >= batches.len() {
                    break;
                }
                let refs: Vec<&Probe> = batches[bi].iter().map(|i| &probes[*i]).collect();
                let use_lib = if refs[0].class == "borrow-eyepatch" { lib_ey.as_ref().unwrap() } else { &lib };
                match compile_batch(use_lib, &dir, &format!("b{}", bi), &refs) {
                    Ok(r) => {
                        if !r.other.is_empty() {
                            infra.lock().unwrap().extend(r.other.iter().map(|o| format!("batch {}: {}", bi, o)));
                        }
                        let mut out = results.lock().unwrap();
                        for (j, pi) in batches[bi].iter().enumerate() {
                            let codes = r.codes.get(&j).cloned().unwrap_or_default();
                            out.push((*pi, verdict(&probes[*pi], &codes)));
                        }
                    }
                    Err(e) => infra.lock().unwrap().push(e),
                }
            });
        }
    });
    let results = results.into_inner().unwrap();
    let mut infra = infra.into_inner().unwrap();
    let mut violations: Vec<(usize, String)> = vec![];
    for (pi, r) in &results {
        if let Err(m) = r {
            if m.starts_with("INFRA") {
                infra.push(m.clone());
            } else {
                violations.push((*pi, m.clone()));
            }
        }
    }
    // an apparent violation is confirmed by compiling the probe alone (a batch-mate's error could mask it)
    let mut confirmed: Vec<(usize, String)> = vec![];
    for (pi, m) in violations {
        let use_lib = if probes[pi].class == "borrow-eyepatch" { lib_ey.as_ref().unwrap() } else { &lib };
        match compile_batch(use_lib, &dir, &format!("single{}", pi), &[&probes[pi]]) {
            Ok(r) => {
                let codes = r.codes.get(&0).cloned().unwrap_or_default();
                if let Err(m2) = verdict(&probes[pi], &codes) {
                    if !m2.starts_with("INFRA") {
                        confirmed.push((pi, m2));
                        continue;
                    }
                }
                let _ = m;
            }
            Err(e) => infra.push(e),
        }
    }
    let _ = std::fs::remove_dir_all(&dir);
    let mut lines = vec![];
    let rdir = verif_root().join("replays");
    let _ = std::fs::create_dir_all(&rdir);
    for (pi, m) in &confirmed {
        let p = &probes[*pi];
        let path = rdir.join(format!("C13-{}.case", p.name));
        let txt = format!(
            "property=C13\ntier={}\nflavour=all\nengine=probe\nclass={}\nexpect={}\nname={}\nsig={}\n# {}\n# source\n{}\n",
            tier.name(),
            p.class,
            if p.expect_reject { "reject" } else { "accept" },
            p.name,
            p.what.replace('\n', " "),
            m,
            p.body
        );
        let _ = std::fs::write(&path, txt);
        println!("violation of C13: {}", m);
        lines.push(format!("VIOLATION property=C13 replay={}", path.display()));
    }
    let evaluated = results.len();
    let distinct_nt: BTreeSet<&String> = results.iter().filter(|(pi, _)| probes[*pi].nontrivial).map(|(pi, _)| &probes[*pi].what).collect();
    let mut hist: BTreeMap<String, u64> = BTreeMap::new();
    for (pi, _) in &results {
        let p = &probes[*pi];
        *hist.entry(format!("{}:{}", p.class, if p.expect_reject { "expected-reject" } else { "expected-accept" })).or_insert(0) += 1;
    }
    let samples: Vec<Value> = probes.iter().filter(|p| p.nontrivial).step_by((probes.len() / 6).max(1)).take(8).map(|p| json!({"what": p.what, "expect": if p.expect_reject {"reject"} else {"accept"}, "source": p.body})).collect();
    rt::evid::write(
        "C13",
        tier.name(),
        seed,
        "exploration",
        json!({
            "evaluations": evaluated,
            "distinct_nontrivial": distinct_nt.len(),
            "rule": "probe programs compiled by rustc (--emit=metadata) against the rlib built from /repo (default features, guard off): (a) the complete grid of 12 handle kinds x witnesses of the four auto-trait classes (u8, Cell<u8>, MutexGuard<'static,u8>, Rc<u8>, *const u8; both parameters independently for two-parameter kinds) x {Send, Sync}; generic probes `fn g<T: B>() { need::<K<T>>() }` for every bound set B of {Send, Sync}; Arc<dyn Trait + bounds>; (b) 58 borrow / lifetime / variance / dropck templates, each with a legal twin that must compile, compiled against the default configuration AND against the nightly `unstable_dropck_eyepatch` configuration (where Arc's Drop impl is #[may_dangle]); (b2) every documented-unsafe public function called outside an unsafe block must be rejected (E0133), every mutating entry point called on an immutable binding must be rejected (E0596), twins with `unsafe {}` / `let mut` must compile; (b3) API that must not exist (UniqueArc: Clone / AsRef<Arc> / Borrow<Arc> / Deref to Arc / Into<Arc> from a reference; mutable access through Arc, OffsetArc, ThinArc, ArcBorrow) must be rejected; (c) proptest-generated nested payload types (Option, tuple, array, Box, Vec, triomphe::Arc, std Arc, Mutex, &'static, PhantomData over the witnesses, depth <=3). Oracle: an independent auto-trait model (Arc-likes: Send <=> Sync <=> all payloads Send + Sync; UniqueArc like Box) and the expected reject/accept of each template; rejects must carry E0277 resp. a borrow-check code, accepts no error. Non-trivial: every expected-reject probe, every generic probe, every nested payload. distinct = by probe text.",
            "samples": samples,
            "class_histogram": hist,
            "batches": batches.len(),
            "new_public_items_not_covered": new_api,
            "inconclusive": infra,
        }),
        &["the sandbox's stable rustc with default features; the borrow / dropck templates additionally on nightly with unstable_dropck_eyepatch (skipped with a note if that build fails)".to_string(), "decides the generated witnesses, generic probes and templates; nothing about programs outside the grammar".to_string()],
        start.elapsed().as_secs_f64(),
        confirmed.len() as i64,
    );
    for l in &lines {
        println!("{}", l);
    }
    println!("C13 {}: evaluations={} distinct_nontrivial={} violations={} wall={:.1}s", tier.name(), evaluated, distinct_nt.len(), confirmed.len(), start.elapsed().as_secs_f64());
    if !confirmed.is_empty() {
        return 1;
    }
    if !infra.is_empty() {
        for i in infra.iter().take(10) {
            eprintln!("INCONCLUSIVE: {}", i);
        }
        return 2;
    }
    0
}

pub fn replay(path: &Path) -> i32 {
    let txt = std::fs::read_to_string(path).unwrap_or_default();
    let mut m = BTreeMap::new();
    for l in txt.lines() {
        if l.starts_with('#') {
            break;
        }
        if let Some((k, v)) = l.split_once('=') {
            m.insert(k.to_string(), v.to_string());
        }
    }
    let body = txt.split("# source\n").nth(1).unwrap_or("").to_string();
    let class: &'static str = match m.get("class").map(|s| s.as_str()) {
        Some("auto") => "auto",
        Some("unsafe") => "unsafe",
        Some("mut") => "mut",
        Some("noapi") => "noapi",
        Some("borrow-eyepatch") => "borrow-eyepatch",
        _ => "borrow",
    };
    let lib = match if class == "borrow-eyepatch" { build_lib_eyepatch() } else { build_lib() } {
        Ok(l) => l,
        Err(e) => {
            eprintln!("{}", e);
            return 2;
        }
    };
    let p = Probe { class, name: "replayed".into(), body, expect_reject: m.get("expect").map(|s| s.as_str()) == Some("reject"), what: m.get("sig").cloned().unwrap_or_default(), nontrivial: true };
    let dir = std::env::temp_dir().join(format!("tv-probe-replay-{}", std::process::id()));
    let _ = std::fs::create_dir_all(&dir);
    let r = compile_batch(&lib, &dir, "replay", &[&p]);
    let _ = std::fs::remove_dir_all(&dir);
    match r {
        Ok(r) => {
            let codes = r.codes.get(&0).cloned().unwrap_or_default();
            println!("probe: {}\nerror codes: {:?}", p.what, codes);
            match verdict(&p, &codes) {
                Ok(()) => {
                    println!("replay: no violation of C13");
                    0
                }
                Err(e) if e.starts_with("INFRA") => {
                    eprintln!("{}", e);
                    2
                }
                Err(e) => {
                    println!("FAILED-CLAUSE {}", e);
                    1
                }
            }
        }
        Err(e) => {
            eprintln!("{}", e);
            2
        }
    }
}
