//! `tv` — the verification binary. Modes:
//!   tv run --property C01 --tier quick          parent: workers, aggregation, evidence
//!   tv worker ...                               one worker process (internal)
//!   tv replay <file> [--quiet]                  re-run one saved case strictly
//!   tv child <mode> ...                         child-process modes (C16, C07, C05)

use std::collections::BTreeMap;
use std::time::Duration;

use rt::run::{self, ParentArgs, Plan, Tier, WorkerArgs};

mod probes;
use tvlib::plans;
use tvlib::FLAVOUR;

fn arg(args: &[String], name: &str) -> Option<String> {
    args.iter().position(|a| a == name).and_then(|i| args.get(i + 1).cloned())
}

fn plan_or_die(prop: &str, tier: Tier) -> Plan {
    match plans::plan(prop, tier) {
        Some(p) => p,
        None => {
            eprintln!("no plan for property {}", prop);
            std::process::exit(2);
        }
    }
}

fn main() {
    let args: Vec<String> = std::env::args().collect();
    let mode = args.get(1).map(|s| s.as_str()).unwrap_or("");
    let seed: u64 = arg(&args, "--seed").or_else(|| std::env::var("VERIF_SEED").ok()).and_then(|s| s.parse().ok()).unwrap_or(1);
    match mode {
        "run" => {
            let prop = arg(&args, "--property").expect("--property");
            let tier = Tier::parse(&arg(&args, "--tier").unwrap_or_else(|| "quick".into())).expect("tier");
            if prop == "C13" {
                std::process::exit(probes::run_parent(tier, seed));
            }
            let plan = plan_or_die(&prop, tier);
            let mut bins = BTreeMap::new();
            let me = std::env::current_exe().unwrap().to_string_lossy().into_owned();
            bins.insert(FLAVOUR.to_string(), me);
            if let Ok(p) = std::env::var("TV_BIN_NOSTD") {
                bins.insert("nostd".to_string(), p);
            }
            if let Ok(p) = std::env::var("TV_BIN_ALL") {
                bins.insert("all".to_string(), p);
            }
            if let Ok(p) = std::env::var("TV_BIN_TSAN") {
                bins.insert("tsan".to_string(), p);
            }
            if let Ok(p) = std::env::var("TV_BIN_EYEP") {
                bins.insert("eyep".to_string(), p);
            }
            if let Ok(p) = std::env::var("TV_BIN_DBG") {
                bins.insert("dbg".to_string(), p);
            }
            if let Ok(p) = std::env::var("TV_BIN_NSX") {
                bins.insert("nsx".to_string(), p);
            }
            let nworkers: u64 = arg(&args, "--workers").and_then(|s| s.parse().ok()).unwrap_or(16);
            let watchdog = Duration::from_secs(arg(&args, "--watchdog").and_then(|s| s.parse().ok()).unwrap_or(if tier == Tier::Quick { 600 } else { 7200 }));
            let a = ParentArgs { property: prop, tier, seed, nworkers, bins, this_flavour: FLAVOUR.into(), watchdog };
            std::process::exit(run::parent(&plan, &a));
        }
        "worker" => {
            let prop = arg(&args, "--property").expect("--property");
            let tier = Tier::parse(&arg(&args, "--tier").unwrap()).unwrap();
            let plan = plan_or_die(&prop, tier);
            let a = WorkerArgs {
                property: prop,
                tier,
                seed,
                index: arg(&args, "--index").unwrap().parse().unwrap(),
                nworkers: arg(&args, "--nworkers").unwrap().parse().unwrap(),
                out: arg(&args, "--out").unwrap().into(),
                flavour: FLAVOUR.into(),
            };
            std::process::exit(run::worker(&plan, &a));
        }
        "replay" => {
            let path = std::path::PathBuf::from(args.get(2).expect("replay file"));
            let quiet = args.iter().any(|a| a == "--quiet");
            if std::fs::read_to_string(&path).map(|t| t.contains("engine=probe")).unwrap_or(false) {
                std::process::exit(probes::replay(&path));
            }
            let Some(rf) = run::parse_replay(&path) else {
                eprintln!("cannot parse replay file {}", path.display());
                std::process::exit(2);
            };
            if rf.flavour != FLAVOUR {
                let var = if rf.flavour == "nostd" {
                    "TV_BIN_NOSTD"
                } else if rf.flavour == "tsan" {
                    "TV_BIN_TSAN"
                } else if rf.flavour == "eyep" {
                    "TV_BIN_EYEP"
                } else if rf.flavour == "dbg" {
                    "TV_BIN_DBG"
                } else if rf.flavour == "nsx" {
                    "TV_BIN_NSX"
                } else {
                    "TV_BIN_ALL"
                };
                if let Ok(bin) = std::env::var(var) {
                    let st = std::process::Command::new(bin).args(&args[1..]).status().expect("exec other flavour");
                    std::process::exit(st.code().unwrap_or(1));
                }
                eprintln!("replay file is for flavour {} and {} is not set", rf.flavour, var);
                std::process::exit(2);
            }
            let plan = plan_or_die(&rf.property, rf.tier);
            std::process::exit(run::replay_case(&plan, &rf.engine, &rf.case, quiet));
        }
        "api-inventory" => {
            for l in probes::api_inventory() {
                println!("{}", l);
            }
        }
        "fuzz-import" => {
            // tv fuzz-import --property P --job J <artifact>: turn a libFuzzer artifact into a replay file
            let prop = arg(&args, "--property").expect("--property");
            let job: usize = arg(&args, "--job").and_then(|s| s.parse().ok()).unwrap_or(0);
            let file = args.last().expect("artifact").clone();
            let data = std::fs::read(&file).expect("read artifact");
            let plan = plan_or_die(&prop, Tier::Thorough);
            let jobs: Vec<&rt::run::Job> = plan.jobs.iter().filter(|j| j.flavour == "all" && j.engine.enum_len().is_none()).collect();
            let j = jobs[job % jobs.len()];
            let case = rt::case::ByteCase::from_bytes(&data, j.engine.params_len(), j.engine.ops_range().1);
            let path = rt::run::verif_root().join("replays").join(format!("{}-fuzz-{:012x}.case", prop, case.hash64() & 0xffff_ffff_ffff));
            let _ = std::fs::create_dir_all(path.parent().unwrap());
            let txt = format!("property={}\ntier=thorough\nflavour=all\nengine={}\ncase={}\nsig=libfuzzer-artifact\n# from {}\n", prop, j.engine.name(), case.to_hex(), file);
            std::fs::write(&path, txt).expect("write replay");
            println!("{}", path.display());
            std::process::exit(run::replay_case(&plan, &j.engine.name(), &case, true));
        }
        "child" => {
            let what = args.get(2).map(|s| s.as_str()).unwrap_or("");
            match what {
                "c16" => eng::c16::child_main(args[3].parse().unwrap(), args[4].parse().unwrap()),
                "c16race" => {
                    let hex = args.get(6).cloned().unwrap_or_default();
                    let sched: Vec<u8> = (0..hex.len() / 2).filter_map(|i| u8::from_str_radix(&hex[2 * i..2 * i + 2], 16).ok()).collect();
                    eng::c16::race_child_main(args[3].parse().unwrap(), args[4].parse().unwrap(), args[5].parse().unwrap(), sched)
                }
                "c05ovf" => eng::ctor::ovf_child_main(args[3].parse().unwrap(), args[4].parse().unwrap()),
                "c07alloc" => eng::ctor::alloc_child_main(args[3].parse().unwrap(), args[4].parse().unwrap()),
                _ => std::process::exit(2),
            }
        }
        _ => {
            eprintln!("usage: tv run|worker|replay ...");
            std::process::exit(2);
        }
    }
}
