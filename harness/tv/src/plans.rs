//! Which engines, with how many cases, decide each property at each tier.

use rt::run::{Job, Plan, Tier};
use rt::tok::{Tok1, Tok16, Tok64, Tok8, TokZ};

use crate::hist_sized::SizedEngine;
use crate::FLAVOUR;

fn job<E: rt::run::Engine + 'static>(e: E, cases: u64, flavour: &'static str) -> Job {
    Job { engine: Box::new(e), cases, flavour }
}

/// the sized-world engines over all payload shapes, for both flavours
fn sized_jobs(prop: &str, max_ops: usize, cases: u64, flavours: &[&'static str]) -> Vec<Job> {
    let mut v = vec![];
    for fl in flavours {
        v.push(job(SizedEngine::<Tok8>::new(prop, max_ops), cases, fl));
        v.push(job(SizedEngine::<Tok1>::new(prop, max_ops), cases / 2, fl));
        v.push(job(SizedEngine::<Tok16>::new(prop, max_ops), cases / 2, fl));
        v.push(job(SizedEngine::<Tok64>::new(prop, max_ops), cases / 4, fl));
        v.push(job(SizedEngine::<TokZ<0>>::new(prop, max_ops), cases / 4, fl));
    }
    v
}

pub fn plan(prop: &str, tier: Tier) -> Option<Plan> {
    let q = tier == Tier::Quick;
    let both: &[&'static str] = &["all", "nostd"];
    let _ = FLAVOUR;
    let (level, rule, assumptions, jobs): (&'static str, String, Vec<String>, Vec<Job>) = match prop {
        "C01" => (
            "exploration",
            "proptest-generated histories (4-byte op records: opcode via the 'lifecycle' weight table, slot, variant, extra) over a pool of <=12 handles of all kinds; the reference model (owners per allocation) and the tracking allocator + Tok registry are compared after every step and at teardown. Non-trivial: some allocation was owned through >=2 different handle kinds, the history contains >=1 conversion or borrow accessor, and the last owner released was of a different kind than the creating handle. distinct = by hash of the case bytes.".into(),
            vec!["payload classes are witnesses (Tok shapes align 1/8/16/64 and a ZST), not all types".into(), "single-threaded histories (schedules are C02)".into()],
            sized_jobs("C01", if q { 48 } else { 160 }, if q { 6000 } else { 120_000 }, both),
        ),
        "C04" => (
            "exploration",
            "proptest-generated histories with the 'counts' weight table; after every step every count accessor of every slot (Arc::count, strong_count on Arc/OffsetArc/ArcBorrow/ArcUnion/ArcUnionBorrow, through from_ptr for raw pointers, through ArcSwap::load) is compared with the model's owner count, and counts are also read inside with_arc / with_raw_offset_arc / ArcBorrow::with_arc callbacks. Non-trivial: >=3 distinct handle kinds had their accessors evaluated at a count >=3 on an allocation that has (had) a raw-pointer or union owner, and >=1 count was read inside a callback at count >=3.".into(),
            vec!["UniqueArc has no count accessor; its count is observed after shareable()".into()],
            sized_jobs("C04", if q { 48 } else { 160 }, if q { 6000 } else { 120_000 }, both),
        ),
        _ => return None,
    };
    Some(Plan { property: prop.to_string(), level, rule, assumptions, jobs })
}
