//! Which engines, with how many cases, decide each property at each tier.

use rt::run::{Job, Plan, Tier};
use hist::{sched_engine, sched_thin_engine, sized_engine, thin_engine};
use mx::MatrixEngine;

use crate::FLAVOUR;

fn job<E: rt::run::Engine + 'static>(e: E, cases: u64, flavour: &'static str) -> Job {
    Job { engine: Box::new(e), cases, flavour }
}
fn jobb(e: Box<dyn rt::run::Engine>, cases: u64, flavour: &'static str) -> Job {
    Job { engine: e, cases, flavour }
}

/// the sized-world engines over all payload shapes, for both flavours
fn sized_jobs(prop: &str, max_ops: usize, cases: u64, flavours: &[&'static str]) -> Vec<Job> {
    let mut v = vec![];
    for fl in flavours {
        v.push(jobb(sized_engine("tok8", prop, max_ops), cases, fl));
        v.push(jobb(sized_engine("tok1", prop, max_ops), cases / 2, fl));
        v.push(jobb(sized_engine("tok16", prop, max_ops), cases / 2, fl));
        v.push(jobb(sized_engine("tok64", prop, max_ops), cases / 4, fl));
        v.push(jobb(sized_engine("tokz", prop, max_ops), cases / 4, fl));
        v.push(jobb(sized_engine("plain8", prop, max_ops), cases / 4, fl));
        v.push(jobb(sized_engine("big", prop, max_ops), cases / 8, fl));
    }
    v
}

/// the thin-world engines over three header/element alignment relations
fn thin_jobs(prop: &'static str, max_ops: usize, cases: u64, flavours: &[&'static str]) -> Vec<Job> {
    let mut v = vec![];
    for fl in flavours {
        v.push(jobb(thin_engine("8b/8", prop, max_ops), cases, fl));
        v.push(jobb(thin_engine("1/16", prop, max_ops), cases / 2, fl));
        v.push(jobb(thin_engine("16/1", prop, max_ops), cases / 2, fl));
        v.push(jobb(thin_engine("4/4", prop, max_ops), cases / 2, fl));
        v.push(jobb(thin_engine("8b/z", prop, max_ops), cases / 4, fl));
    }
    v
}

pub fn plan(prop: &str, tier: Tier) -> Option<Plan> {
    let q = tier == Tier::Quick;
    let both: &[&'static str] = &["all", "nostd"];
    let _ = FLAVOUR;
    let (level, rule, assumptions, jobs): (&'static str, String, Vec<String>, Vec<Job>) = match prop {
        "C01" => (
            "exploration",
            "proptest-generated histories (4-byte op records: opcode via the 'lifecycle' weight table, slot, variant, extra) over a pool of <=12 handles of all kinds; the reference model (owners per allocation) and the tracking allocator + Tok registry are compared after every step and at teardown. Non-trivial: some allocation was owned through >=2 different handle kinds, the history contains >=1 conversion or borrow accessor, and the last owner released was of a different kind than the creating handle. distinct = by hash of the case bytes.".into(),
            vec!["payload classes are witnesses (Tok shapes align 1/8/16/64 and a ZST), not all types".into(), "single-threaded histories (schedules are C02)".into()],
            {
                let mut v = sized_jobs("C01", if q { 48 } else { 160 }, if q { 6000 } else { 720_000 }, both);
                v.extend(thin_jobs("C01", if q { 40 } else { 128 }, if q { 3000 } else { 360_000 }, both));
                v
            },
        ),
        "C04" => (
            "exploration",
            "proptest-generated histories with the 'counts' weight table; after every step every count accessor of every slot (Arc::count, strong_count on Arc/OffsetArc/ArcBorrow/ArcUnion/ArcUnionBorrow, through from_ptr for raw pointers, through ArcSwap::load) is compared with the model's owner count, and counts are also read inside with_arc / with_raw_offset_arc / ArcBorrow::with_arc callbacks. Non-trivial: >=3 distinct handle kinds had their accessors evaluated at a count >=3 on an allocation that has (had) a raw-pointer or union owner, and >=1 count was read inside a callback at count >=3.".into(),
            vec!["UniqueArc has no count accessor; its count is observed after shareable()".into()],
            {
                let mut v = sized_jobs("C04", if q { 48 } else { 160 }, if q { 6000 } else { 720_000 }, both);
                v.extend(thin_jobs("C04", if q { 40 } else { 128 }, if q { 3000 } else { 360_000 }, both));
                // assume_init is a count-neutral conversion too (shared uninitialised handles)
                for e in eng::uninit::engines() {
                    v.push(jobb(e, if q { 2000 } else { 240_000 }, "all"));
                }
                v
            },
        ),
        "C02" => (
            "exploration",
            "proptest-generated multi-thread programs (2-4 threads, <=8 ops each from clone-via-any-path / read / drop / convert kind / read count / send a handle / receive) over handles of every kind, executed under the harness-owned scheduler: every atomic op on a reference count, every payload access and every mailbox op is a scheduling point decided by generated schedule bytes; loads may observe stale stores (generated staleness bytes, coherence respected); happens-before is tracked with vector clocks per the release-sequence and fence rules. Oracle: destructor and deallocation ordered after every payload access and every count access of every thread; no access after release; destroyed exactly once; freed once. Non-trivial: >=2 threads accessed the value or its count, >=1 preemption happened and >=1 tracked block was freed during the run.".into(),
            vec![
                "sampled schedules under an operational view-based model (interleavings x coherence-respecting stale loads x release sequences x fences); no load-buffering / out-of-thin-air executions".into(),
                "SeqCst is treated as AcqRel reading the latest store (a restriction of allowed behaviours)".into(),
                "2-4 threads, <=8 ops per thread".into(),
            ],
            vec![
                jobb(sched_engine("tok8", "C02", 24), if q { 60_000 } else { 3_000_000 }, "all"),
                jobb(sched_engine("tok16", "C02", 24), if q { 12_000 } else { 500_000 }, "all"),
                jobb(sched_engine("plain8", "C02", 24), if q { 12_000 } else { 500_000 }, "all"),
                jobb(sched_engine("plain16", "C02", 24), if q { 6_000 } else { 250_000 }, "all"),
                jobb(sched_engine("tokz", "C02", 24), if q { 6_000 } else { 250_000 }, "all"),
                jobb(sched_thin_engine("8b/8", "C02", 24), if q { 20_000 } else { 600_000 }, "all"),
                jobb(sched_thin_engine("1/16", "C02", 24), if q { 6_000 } else { 200_000 }, "all"),
                jobb(sched_thin_engine("plain", "C02", 24), if q { 10_000 } else { 300_000 }, "all"),
                jobb(sched_thin_engine("8b/8", "C02", 24), if q { 6_000 } else { 200_000 }, "nostd"),
                jobb(sched_engine("tok8", "C02", 24), if q { 12_000 } else { 500_000 }, "nostd"),
            ],
        ),
        "C03" => (
            "exploration",
            "(a) histories: 'uniqueness' weight table; every uniqueness-gated API (is_unique, get_mut, get_unique on Arc<T> / Arc<dyn> / Arc<HeaderSlice>, try_unique, UniqueArc::try_from, the in-place branch of make_mut / make_unique / OffsetArc::make_mut) must answer success iff the model has exactly one owner, and on decline return the same handle to the same allocation; (b) schedules: threads poll for uniqueness (is_unique+get_mut / get_mut / get_unique) and write through the granted reference while others read, clone, send and drop; the write must be ordered (vector clocks) after every read other threads made. Non-trivial: (a) an API evaluated at >=2 owners where a co-owner is not a plain Arc and later at 1 owner on the same allocation; (b) a poll was granted and wrote, >=2 threads accessed the value, >=1 preemption.".into(),
            vec!["schedule part: sampled schedules under the operational memory model of DESIGN.md section 4.4".into(), "deprecated Arc::write / as_mut_slice and ThinArc::with_arc_mut gates are exercised by the thin/uninit engines".into()],
            {
                let mut v = sized_jobs("C03", if q { 48 } else { 128 }, if q { 6000 } else { 400_000 }, both);
                v.extend(thin_jobs("C03", if q { 40 } else { 128 }, if q { 3000 } else { 240_000 }, both));
                v.push(jobb(sched_engine("tok8", "C03", 24), if q { 50_000 } else { 8_000_000 }, "all"));
                v.push(jobb(sched_thin_engine("8b/8", "C03", 24), if q { 15_000 } else { 2_000_000 }, "all"));
                v.push(jobb(sched_engine("big4k", "C03", 24), if q { 12_000 } else { 1_000_000 }, "all"));
                v.push(jobb(sched_engine("tok8", "C03", 24), if q { 10_000 } else { 1_200_000 }, "nostd"));
                v
            },
        ),
        "C08" => (
            "exploration",
            "(a) histories: 'copy-on-write' weight table; Arc::make_mut, Arc::make_unique, OffsetArc::make_mut, Arc<HeaderSlice>::make_mut followed by a write of a fresh value, with co-owners of every kind: in place (same block, zero Clone calls) iff sole owner, else exactly one Clone, a fresh block with count 1, the old allocation loses one owner and every other handle still reads the old value (checked through every slot after every step); (b) schedules: one or more threads make_mut+write while others read/clone/drop; the write must not race with any read, and a thread that keeps holding a handle must keep reading the value it saw. Non-trivial: (a) make_mut on an allocation shared with a non-Arc handle; (b) make_mut redirected to a copy under >=1 preemption.".into(),
            vec!["schedule part: sampled schedules under the operational memory model of DESIGN.md section 4.4".into()],
            {
                let mut v = sized_jobs("C08", if q { 48 } else { 128 }, if q { 6000 } else { 500_000 }, both);
                v.push(jobb(sched_engine("tok8", "C08", 24), if q { 50_000 } else { 7_500_000 }, "all"));
                v.push(jobb(sched_engine("big4k", "C08", 24), if q { 12_000 } else { 1_000_000 }, "all"));
                v.push(jobb(sched_engine("tok8", "C08", 24), if q { 10_000 } else { 1_500_000 }, "nostd"));
                v
            },
        ),
        "C09" => (
            "exploration",
            "(a) histories: 'unwrap' weight table; try_unwrap, try_unique, UniqueArc::try_from, UniqueArc::into_inner, unwrap_or_clone with co-owners of every kind: the value is moved out (same Tok identity, destructor not run, block freed in that step) iff sole owner, otherwise the same handle comes back (same address, zero Clone calls) or, for unwrap_or_clone, a fresh clone comes back and one owner is released; (b) schedules: 2-4 threads racing try_unwrap / try_unique / try_from+into_inner / unwrap_or_clone / drop on handles to common values: afterwards every value was destroyed exactly once (a value moved out twice is a double drop, never moved out nor destroyed is a leak), the block freed once, and the winner's accesses are ordered after the others'. Non-trivial: (a) one declined and one successful unwrap in the same history; (b) >=2 threads attempted an unwrap with >=1 preemption.".into(),
            vec!["schedule part: sampled schedules under the operational memory model of DESIGN.md section 4.4".into()],
            {
                let mut v = sized_jobs("C09", if q { 48 } else { 128 }, if q { 6000 } else { 400_000 }, both);
                // the unwrap family over the whole shape matrix (release layout of into_inner / try_unwrap)
                v.push(job(MatrixEngine::new("C09"), if q { 20_000 } else { 2_000_000 }, "all"));
                v.push(jobb(sched_engine("tok8", "C09", 24), if q { 50_000 } else { 6_000_000 }, "all"));
                // payloads without drop glue; with interior mutability the moved-out value must be the current one
                v.push(jobb(sched_engine("plain8", "C09", 24), if q { 15_000 } else { 1_600_000 }, "all"));
                v.push(jobb(sched_engine("bump8", "C09", 24), if q { 30_000 } else { 3_200_000 }, "all"));
                v.push(jobb(sched_engine("tok8", "C09", 24), if q { 10_000 } else { 1_200_000 }, "nostd"));
                v
            },
        ),
        "C10" => (
            "exploration",
            "proptest-generated histories over ThinArc<H,T> and every fat / protected / raw / unique / arc-swap view of the same allocations (header Tok + 0..8 element Toks; header alignment <, =, > element alignment), including fat Arcs whose recorded length is wrong (true+1, true-1, 0, true+1000, usize::MAX) fed to into_thin, and with_arc_mut callbacks that mutate, replace by a fresh Arc, swap with an existing one, or panic before/after replacing. After every step every slot is read element by element and compared (values, identities, addresses, recorded length, count, heap_ptr) with the model. Non-trivial: a thin and a fat/protected handle to one allocation of length >=2 compared element-wise, or an into_thin with a wrong recorded length, or a with_arc_mut that replaced the Arc.".into(),
            vec!["element/header types are Tok witnesses; ZST elements are refused by the constructors (C06)".into()],
            {
                let mut v = thin_jobs("C10", if q { 40 } else { 128 }, if q { 8000 } else { 450_000 }, both);
                // the recorded length against what a (possibly misreporting) iterator really delivered
                for fl in both {
                    for (e, w) in eng::ctor::fault_engines() {
                        v.push(jobb(e, w * if q { 1500 } else { 200_000 }, fl));
                    }
                }
                v
            },
        ),
        "C05" => (
            "exploration",
            "proptest-generated points of a static matrix: 8 header shapes x 12 element shapes (size 0..64, alignment 1..64, incl. zero-sized, padded and over-aligned) x length in {0,1,2,3,4,5,7,8,9,15,16,17,31,40} x constructor (new, From<T>, From<Box>, Default, UniqueArc::new, new_uninit+write, from_header_and_iter/vec/slice, from_header_and_uninit_slice, ThinArc forms, From<Vec>/&[T], collect exact/inexact, new_uninit_slice) x extra clones x release path (drop as Arc / OffsetArc / ArcUnion first / second / UniqueArc, after from_raw, after a dyn cast, after unsizing, after header erasure, try_unwrap, into_inner, RefCnt). Observed oracle: heap_ptr = block start, block alignment >= max(8, align_of_val), value address aligned, value behind the count word and inside the block, red zones intact, dealloc layout == alloc layout (checked by the tracking allocator), exactly one free, nothing left. Non-trivial: a header or element that is over-aligned (>8), zero-sized or padded, released through a path other than dropping the constructing handle.".into(),
            vec!["8 x 12 sampled shapes rather than every size 0..64 x alignment 1..64".into(), "overflow-adjacent lengths (usize::MAX, usize::MAX/size +- k, isize::MAX/size +- k, 2^40) for new_uninit_slice, from_header_and_uninit_slice and iterators claiming the length run in child processes: the outcome must be a refusal panic or the allocation-error abort, never a returned handle in a block shorter than needed (the tracking allocator refuses requests above 2^36 bytes)".into()],
            vec![
                job(MatrixEngine::new("C05"), if q { 60_000 } else { 40_000_000 }, "all"),
                job(MatrixEngine::new("C05"), if q { 20_000 } else { 12_000_000 }, "nostd"),
                job(eng::ctor::OverflowEngine, if q { 320 } else { 120_000 }, "all"),
                // the same question with a 32-bit usize (Miri for i686 as the execution vehicle; skipped when unavailable)
                job(eng::c16::C05M32Engine, if q { 64 } else { 2000 }, "all"),
                job(eng::ctor::OverflowEngine, if q { 160 } else { 60_000 }, "nostd"),
            ],
        ),
        "C11" => (
            "exploration",
            "(a) matrix: payload shape x handle kind x into/from pairing (into_raw/from_raw, as_ptr, from_raw_slice, into_raw_offset/from_raw_offset, ThinArc::into_raw/from_raw/ptr/heap_ptr, ArcBorrow::from_ptr, cast to *const dyn then from_raw, unsize coercion, arc-swap RefCnt) with clones and moves in between: as_ptr == Deref address == into_raw, heap_ptr == allocator block start, the round trip recovers the same block, contents and count, every handle type is one word (two for slice/dyn) with the Option niche, OffsetArc/ArcBorrow bit pattern == value address; (b) histories ('pointers' weight table) checking address stability across every conversion, clone and move. Non-trivial: over-aligned / zero-sized / padded / unsized payload with a clone or a different release path between into and from; in histories a raw round trip on an allocation that had >=3 handle kinds.".into(),
            vec!["ThinArc::into_raw/as_ptr are the block start by design (opaque c_void); the Deref-address clause is checked on the fat view".into()],
            {
                let mut v = vec![job(MatrixEngine::new("C11"), if q { 50_000 } else { 12_000_000 }, "all"), job(MatrixEngine::new("C11"), if q { 15_000 } else { 3_200_000 }, "nostd")];
                v.extend(sized_jobs("C11", if q { 40 } else { 128 }, if q { 3000 } else { 480_000 }, both));
                // raw round trips with a 32-bit usize (Miri for i686 as the execution vehicle; skipped when unavailable)
                v.push(job(eng::c16::C11M32Engine, 0, "all"));
                v.extend(thin_jobs("C11", if q { 40 } else { 128 }, if q { 2000 } else { 320_000 }, both));
                v
            },
        ),
        "C12" => (
            "exploration",
            "(a) matrix: every ordered pair (A,B) of the 8 x 12 shapes, both constructors, histories of <=24 ops (clone union, drop union, as_first/as_second().clone_arc(), drop plain Arcs, compare, ptr_eq, move) with after every op: is_first/is_second/as_first/as_second/borrow agree with the constructor, borrow address == the original Arc::as_ptr with the low bit clear, ArcUnion::strong_count == owners, plain Arcs to both allocations intact; unions of different variants never ==; one word + Option niche; right layout on the final free (tracking allocator); (b) sized-world histories with ArcUnion<P,Alt> / ArcUnion<Alt,P> handles among all other kinds (the right Tok type's destructor runs: the Tok magic is per type). Non-trivial: second variant, or A and B of equal layout, or byte-aligned / zero-sized payload, with >=1 union clone and a union as the last owner.".into(),
            vec!["shapes are sampled".into()],
            {
                let mut v = vec![job(MatrixEngine::new("C12"), if q { 40_000 } else { 15_000_000 }, "all"), job(MatrixEngine::new("C12"), if q { 10_000 } else { 4_500_000 }, "nostd")];
                v.extend(sized_jobs("C12", if q { 40 } else { 128 }, if q { 3000 } else { 900_000 }, both));
                v
            },
        ),
        "C16" => (
            "exploration",
            "child processes: (a) the full grid of 16 clone entry points (Arc<T>, Arc<[T]>, Arc<dyn>, ThinArc, OffsetArc::clone/clone_arc, ArcBorrow::clone_arc, ArcUnion first/second, clone inside ThinArc::with_arc / OffsetArc::with_arc / with_raw_offset_arc / ArcBorrow::with_arc, arc-swap RefCnt::inc, Arc<HeaderSlice>, Arc<str>) x the 10 listed starting counts, enumerated completely in both the std and the no_std configuration; (b) proptest-generated (entry point, count) with counts boundary-biased over the whole usize range (within 4096 of isize::MAX on either side, random above, random below). The child creates the handle, learns the counter's address from its first atomic access through the shim (cross-checked with heap_ptr), presets it, calls the entry point inside catch_unwind. Oracle: below isize::MAX -> exit 0 and count = start+1; above -> SIGABRT/SIGILL with no handle produced and nothing catchable; exactly isize::MAX -> either, cleanly. Non-trivial: start > isize::MAX, or start = isize::MAX-1 (the largest count that must succeed).".into(),
            vec!["the count is preset, not reached by 2^63 clones (the library keeps no other state)".into(), "no_std = a no_std build of triomphe linked into a std harness".into()],
            vec![
                job(eng::c16::C16Engine { fixed_grid: true }, 0, "all"),
                job(eng::c16::C16Engine { fixed_grid: true }, 0, "nostd"),
                job(eng::c16::C16Engine { fixed_grid: false }, if q { 320 } else { 16_000 }, "all"),
                job(eng::c16::C16Engine { fixed_grid: false }, if q { 320 } else { 16_000 }, "nostd"),
                // the guard under concurrency: several threads clone one allocation at the limit, simulated schedules
                job(eng::c16::C16RaceEngine, if q { 1500 } else { 60_000 }, "all"),
                // the same grid with a 32-bit usize (Miri for i686 as the execution vehicle; skipped when unavailable)
                job(eng::c16::C16M32Engine { fixed_grid: true }, 0, "all"),
                job(eng::c16::C16M32Engine { fixed_grid: false }, if q { 64 } else { 4_000 }, "all"),
            ],
        ),
        "C14" => (
            "exploration",
            "(a) exhaustive: every ordered pair of values from headers x slices of length <=3 over a small alphabet (u8 {0,1,2}: 120 values; f32 {0.0,-0.0,1.0,NaN}: 340 values; an Eq-only type: 120 values), for 13 handle / payload kinds (Arc<T>, Arc<(H,Vec<T>)>, Arc<[T]>, Arc<HeaderSlice<H,[T]>>, Arc<HeaderSlice<HeaderWithLength<H>,[T]>>, Arc<HeaderSliceWithLengthProtected>, ThinArc, OffsetArc, ArcBorrow, ArcUnion (same and different variants), bare HeaderSlice / HeaderSlice<HeaderWithLength> / HeaderWithLength values), placed in distinct allocations and (when identical) in the same allocation, recorded lengths equal and unequal to the slice length; (b) proptest-random larger values (full-range scalars incl. arbitrary NaN bit patterns, slices up to 80). Oracle: ==, !=, <, <=, >, >=, partial_cmp, cmp on handles equal the same on the plain values ((header, slice) tuple for thin / header-slice kinds); != is the negation of ==; == iff partial_cmp == Some(Equal); relational operators and cmp agree with partial_cmp; a recording Hasher sees the identical write sequence for handle and value and equal handles hash equally; {:?} {:#?} {} {:>8} {:<6} {:08.3} {:+} format identically; HashMap / BTreeMap keyed by Arc<T> probed with &T. Licence: same allocation + value not equal to itself => == may be true. Non-trivial: equal values in distinct allocations, or unequal recorded lengths, or a value not equal to itself, or a kind other than Arc<T>/ThinArc.".into(),
            vec!["the exhaustive part is complete for the stated small domain; the random part is sampled".into()],
            {
                let mut v = vec![];
                for e in eng::cmp::engines(true) {
                    v.push(jobb(e, 0, "all"));
                }
                for e in eng::cmp::engines(false) {
                    v.push(jobb(e, if q { 20_000 } else { 7_000_000 }, "all"));
                }
                v
            },
        ),
        #[cfg(feature = "serde")]
        "C17" => (
            "exploration",
            "proptest-generated values of a recursive Val type (30 variants driving every Serializer entry point: all integer widths incl. 128-bit, floats by bit pattern, char, str, bytes, none/some, unit, unit/newtype/tuple struct, seq, tuple, map, struct, the four enum variant forms; depth <=4, width <=6). (a) A recording serializer logs every call with its arguments and fails at its k-th call (k = every call when <=12 calls, else 6 generated/boundary points, plus the fault-free run): the call log and the result of serialising Arc<Val> and UniqueArc<Val> must equal those of serialising the Val. (b) A recording / failing deserializer over the Val: Arc::<Val>::deserialize and UniqueArc::<Val>::deserialize versus Val::deserialize on identical deserializers: same calls, both Ok with equal values and the Arc is a sole owner living in a block allocated during the call, or both Err with the same error and nothing allocated during the call survives; after dropping all results the set of live tracked blocks is unchanged. (c) Arc<u64>, Arc<String>, Arc<Vec<u32>>, Arc/UniqueArc<(u8,String)> through serde's own in-memory value deserialisers, incl. type errors and a too-short sequence. Non-trivial: value of depth >=2, or a fault injected strictly inside the call.".into(),
            vec!["serde feature on (default configuration)".into(), "the recording serializer/deserializer are the harness's own".into()],
            vec![job(eng::serde_eng::SerdeEngine, if q { 30_000 } else { 12_000_000 }, "all")],
        ),
        "C15" => (
            "exploration",
            "proptest-generated (API, length 0..24, 32-bit mask of slots written, 0..2 extra clones, fate) over Arc::new_uninit, UniqueArc::new_uninit, Arc::new_uninit_slice, UniqueArc::new_uninit_slice, UniqueArc::from_header_and_uninit_slice with identity-tracked header and element payloads (4 alignment combinations). Fates: drop before assume_init (no element destructor may run: written Toks stay alive and undropped in the registry, unwritten slots are never touched - their fresh-memory fill pattern would show as a bad magic -, the header is destroyed exactly once, the block is freed with its layout), assume_init / assume_init_slice / assume_init_slice_with_header (same block, same count, same contents; afterwards every element destroyed exactly once with the allocation, also when released through another kind), the deprecated Arc::write / as_mut_slice (panic iff shared; every other handle's view and the count unchanged). Non-trivial: a proper non-empty subset of slots written before a drop, or assume_init followed by release through a different kind, or a deprecated write at >=2 owners.".into(),
            vec!["assume_init is only called with every slot written (its safety contract)".into()],
            {
                let mut v = vec![];
                for fl in both {
                    for e in eng::uninit::engines() {
                        v.push(jobb(e, if q { 6000 } else { 9_000_000 }, fl));
                    }
                }
                v
            },
        ),
        "C06" => (
            "exploration",
            "proptest-generated (constructor, length from a boundary-biased table 0..300, spare capacity 0..19, size_hint regime) over 14 moving constructors (From<Vec>, collect from vec::IntoIter / custom iterators with exact, lower<upper and (0,None) hints into Arc<[T]> and UniqueArc<[T]>, from_header_and_iter / from_header_and_vec, ThinArc::from_header_and_iter, into_thin, header erasure both ways, From<Box<T>>, new / From<T>, UniqueArc::new + into_inner) with identity-tracked elements and header (4 alignment combinations + a zero-sized element type), and over the Copy constructors (from_header_and_slice, ThinArc::from_header_and_slice, From<&[T]> for u8/u16/u32/u64/f32/padded tuples; From<&str>, From<String>, from_header_and_str with multi-byte UTF-8). Oracle: contents read back equal the input in order and number (identity, value, header, recorded length); every input Tok alive while the handle lives and destroyed exactly once when it is dropped; exactly one block survives the call (the source container's storage is released); nothing left afterwards; a zero-sized element type may be refused up front but never yields wrong counts. Non-trivial: >=2 resource-owning elements, or spare capacity, or an inexact size_hint.".into(),
            vec!["element and header types are Tok witnesses".into()],
            {
                let mut v = vec![];
                for fl in both {
                    for (e, w) in eng::ctor::ctor_engines() {
                        v.push(jobb(e, w * if q { 1500 } else { 600_000 }, fl));
                    }
                }
                v
            },
        ),
        "C07" => (
            "fault_enumeration",
            "(a) iterator-driven constructors (from_header_and_iter, ThinArc::from_header_and_iter, collect into Arc<[T]> / UniqueArc<[T]>, also through the exact-hint IteratorAsExactSizeIterator path) fed a scriptable iterator: a panic armed at the k-th callback (next / len / size_hint; k = 0..23, 0 = none), len()/size_hint() answers that are off by -2..+2 and change between successive questions; (b) Clone panicking inside make_mut / make_unique / unwrap_or_clone / OffsetArc::make_mut in shared and unique states; closures panicking inside ThinArc::with_arc / OffsetArc::with_arc / ArcBorrow::with_arc / with_raw_offset_arc / with_arc_mut (before / after replacing the Arc); PartialEq / PartialOrd / Hash / Debug of the payload panicking while Arc / ArcUnion / OffsetArc / ArcBorrow handles are compared, hashed or formatted; (c) allocation failure: child processes with the k-th allocation inside each of 12 constructor calls returning null (enumerated completely, k = 0..4). Oracle after catch_unwind: every value destroyed at most once, no destructor or read on a never-written slot (magic check), surviving handles valid with accurate counts, a returned handle holds exactly the items yielded, leaked values tolerated only inside the single half-built block of a constructor that panicked; children must end with SIGABRT and 'memory allocation of N bytes failed', never SIGSEGV, never survive a failed allocation. Non-trivial: the fault fired strictly inside the call, or a length lie with a non-zero offset, or a child that died through the allocation-error path.".into(),
            vec!["k-th callback enumeration is sampled by proptest over k = 0..23 for up to 6 items (every k reachable); allocation-failure grid is complete".into()],
            {
                let mut v = vec![];
                for fl in both {
                    for (e, w) in eng::ctor::fault_engines() {
                        v.push(jobb(e, w * if q { 3000 } else { 840_000 }, fl));
                    }
                    v.push(job(eng::ctor::AllocFailEngine, 0, fl));
                }
                v
            },
        ),
        _ => return None,
    };
    let mut jobs = jobs;
    let mut rule = rule;
    let mut assumptions = assumptions;
    // the nightly `unstable_dropck_eyepatch` configuration (Arc's other Drop impl) joins the lifecycle / layout /
    // constructor / uninit plans when its binary was built (./check builds it if the nightly toolchain works)
    if std::env::var_os("TV_BIN_EYEP").is_some() && matches!(prop, "C01" | "C05" | "C06" | "C15" | "C02" | "C03" | "C09") {
        match prop {
            "C02" => {
                jobs.push(jobb(sched_engine("tok8", "C02", 24), if q { 20_000 } else { 1_000_000 }, "eyep"));
                jobs.push(jobb(sched_engine("plain8", "C02", 24), if q { 6_000 } else { 300_000 }, "eyep"));
                jobs.push(jobb(sched_thin_engine("8b/8", "C02", 24), if q { 6_000 } else { 300_000 }, "eyep"));
            }
            "C03" => jobs.push(jobb(sched_engine("tok8", "C03", 24), if q { 15_000 } else { 1_000_000 }, "eyep")),
            "C09" => jobs.push(jobb(sched_engine("tok8", "C09", 24), if q { 15_000 } else { 1_000_000 }, "eyep")),
            "C01" => {
                jobs.push(jobb(sized_engine("tok8", "C01", if q { 48 } else { 160 }), if q { 3000 } else { 120_000 }, "eyep"));
                jobs.push(jobb(sized_engine("tokz", "C01", if q { 48 } else { 160 }), if q { 1000 } else { 40_000 }, "eyep"));
                jobs.push(jobb(thin_engine("8b/8", "C01", if q { 40 } else { 128 }), if q { 2000 } else { 80_000 }, "eyep"));
            }
            "C05" => jobs.push(job(MatrixEngine::new("C05"), if q { 15_000 } else { 3_000_000 }, "eyep")),
            "C06" => {
                for (e, w) in eng::ctor::ctor_engines() {
                    jobs.push(jobb(e, w * if q { 800 } else { 40_000 }, "eyep"));
                }
            }
            _ => {
                for e in eng::uninit::engines() {
                    jobs.push(jobb(e, if q { 3000 } else { 100_000 }, "eyep"));
                }
            }
        }
        rule.push_str(" | the same engines also run against a nightly build of the crate with `unstable_dropck_eyepatch` (flavour eyep).");
    }
    // counts, offsets and union tags with a 32-bit usize (the raw round trips of harness/m32 read every count
    // accessor and go through both union variants)
    if matches!(prop, "C04" | "C12") {
        jobs.push(job(eng::c16::C11M32Engine, 0, "all"));
    }
    // Default is a constructor: wherever a handle type implements it the result is a fresh sole owner (autoref
    // probes inside the copy-constructor engine; the clause is tagged C06, C04, C09)
    if matches!(prop, "C04" | "C09") {
        jobs.push(job(eng::ctor::CopyCtorEngine, if q { 1600 } else { 40_000 }, "all"));
    }
    // "borrowing, comparing, hashing or formatting never change the count" also when the borrow's callback unwinds:
    // the callback-panic scripts of the fault engines (with_arc / with_arc_mut / with_raw_offset_arc closures, payload
    // comparison / hash / format impls); their count clauses are tagged C04
    // "exactly that block is returned with exactly the layout it was requested with" for constructors fed iterators
    // whose len() / size_hint() lie or change between questions, and on the cleanup paths after a panicking callback:
    // the tracking allocator's layout / double-free / interior-pointer clauses are this property's
    if prop == "C05" {
        for (e, w) in eng::ctor::fault_engines() {
            jobs.push(jobb(e, w * if q { 2500 } else { 200_000 }, "all"));
        }
        rule.push_str(" | the iterator-driven constructors also run under the fault scripts of C07 (len()/size_hint() answers off by -2..+2 and changing between questions, a panic at the k-th callback): every block they release, on the normal and the cleanup path, must go back with the layout it was requested with.");
    }
    if prop == "C04" {
        for (e, w) in eng::ctor::fault_engines() {
            jobs.push(jobb(e, w * if q { 2500 } else { 200_000 }, "all"));
        }
        rule.push_str(" | callback-unwind scripts: closures and payload comparison / hash / format impls that panic inside with_arc, with_arc_mut, with_raw_offset_arc, ==, cmp, hash, {:?} on every handle kind; the count read afterwards through the surviving handles must be what it was.");
    }
    // the `dbg` flavour: the library compiled with debug assertions and overflow checks ON (the profile a client's
    // `cargo test` uses). A debug_assert that is wrong, or a code path that differs under cfg(debug_assertions),
    // is invisible to the release-like flavours.
    if std::env::var_os("TV_BIN_DBG").is_some() {
        let hs = |p: &str, n: u64| -> Vec<Job> {
            vec![jobb(sized_engine("tok8", p, if q { 48 } else { 128 }), n, "dbg"), jobb(sized_engine("tokz", p, if q { 48 } else { 128 }), n / 3, "dbg"), jobb(sized_engine("tok64", p, if q { 48 } else { 128 }), n / 3, "dbg")]
        };
        let n = if q { 3000 } else { 150_000 };
        let before = jobs.len();
        match prop {
            "C01" | "C04" | "C03" => {
                let p: &'static str = if prop == "C01" { "C01" } else if prop == "C04" { "C04" } else { "C03" };
                jobs.extend(hs(p, n));
                jobs.push(jobb(thin_engine("8b/8", p, if q { 40 } else { 128 }), n, "dbg"));
                jobs.push(jobb(thin_engine("8b/z", p, if q { 40 } else { 128 }), n / 3, "dbg"));
                if prop == "C04" {
                    for e in eng::uninit::engines() {
                        jobs.push(jobb(e, n / 3, "dbg"));
                    }
                }
            }
            "C08" => jobs.extend(hs("C08", n)),
            "C09" => {
                jobs.extend(hs("C09", n));
                jobs.push(job(MatrixEngine::new("C09"), n * 3, "dbg"));
            }
            "C10" => {
                jobs.push(jobb(thin_engine("8b/8", "C10", if q { 40 } else { 128 }), n, "dbg"));
                jobs.push(jobb(thin_engine("1/16", "C10", if q { 40 } else { 128 }), n / 2, "dbg"));
                jobs.push(jobb(thin_engine("8b/z", "C10", if q { 40 } else { 128 }), n / 2, "dbg"));
            }
            "C05" => jobs.push(job(MatrixEngine::new("C05"), n * 6, "dbg")),
            "C11" => {
                jobs.push(job(MatrixEngine::new("C11"), n * 5, "dbg"));
                jobs.extend(hs("C11", n));
            }
            "C12" => {
                jobs.push(job(MatrixEngine::new("C12"), n * 4, "dbg"));
                jobs.extend(hs("C12", n));
            }
            "C06" => {
                for (e, w) in eng::ctor::ctor_engines() {
                    jobs.push(jobb(e, w * n / 4, "dbg"));
                }
            }
            "C07" => {
                for (e, w) in eng::ctor::fault_engines() {
                    jobs.push(jobb(e, w * n / 3, "dbg"));
                }
            }
            "C15" => {
                for e in eng::uninit::engines() {
                    jobs.push(jobb(e, n, "dbg"));
                }
            }
            "C16" => jobs.push(job(eng::c16::C16Engine { fixed_grid: true }, 0, "dbg")),
            _ => {}
        }
        if jobs.len() > before {
            rule.push_str(" | the same engines also run against the library built with debug assertions and overflow checks on (flavour dbg).");
        }
    }
    // the `nsx` flavour: the crate WITHOUT std but WITH every optional dependency (serde, stable_deref_trait, unsize,
    // arc-swap): the feature-gated impls compiled in their no_std form (`all` has them with std, `nostd` not at all)
    if std::env::var_os("TV_BIN_NSX").is_some() {
        let n = if q { 3000 } else { 150_000 };
        let before = jobs.len();
        match prop {
            "C01" | "C04" | "C11" | "C12" => {
                let p: &'static str = match prop {
                    "C01" => "C01",
                    "C04" => "C04",
                    "C11" => "C11",
                    _ => "C12",
                };
                jobs.push(jobb(sized_engine("tok8", p, if q { 48 } else { 128 }), n, "nsx"));
                jobs.push(jobb(sized_engine("tok16", p, if q { 48 } else { 128 }), n / 3, "nsx"));
                if prop == "C01" || prop == "C04" {
                    jobs.push(jobb(thin_engine("8b/8", p, if q { 40 } else { 128 }), n, "nsx"));
                } else {
                    jobs.push(job(MatrixEngine::new(p), n * 4, "nsx"));
                }
            }
            "C05" => jobs.push(job(MatrixEngine::new("C05"), n * 5, "nsx")),
            "C10" => jobs.push(jobb(thin_engine("8b/8", "C10", if q { 40 } else { 128 }), n, "nsx")),
            "C14" => {
                for e in eng::cmp::engines(true) {
                    jobs.push(jobb(e, if q { 1500 } else { 60_000 }, "nsx"));
                }
            }
            #[cfg(feature = "serde")]
            "C17" => jobs.push(job(eng::serde_eng::SerdeEngine, if q { 10_000 } else { 2_000_000 }, "nsx")),
            _ => {}
        }
        if jobs.len() > before {
            rule.push_str(" | the same engines also run against the crate built without std but with serde, stable_deref_trait, unsize and arc-swap on (flavour nsx).");
        }
    }
    // the ThreadSanitizer flavour (real threads, TSan as the oracle) joins the plan when its binary was built
    // (./check builds it for the thorough tier of the schedule-dependent properties, or with VERIF_TSAN=1)
    // compile probes: the impls / constructors exist for the whole class of payload types the property
    // quantifies over (a tightened bound cannot be seen by engines that are themselves compiled against it)
    if matches!(prop, "C06" | "C10" | "C14" | "C17") {
        let p: &'static str = match prop {
            "C06" => "C06",
            "C10" => "C10",
            "C14" => "C14",
            _ => "C17",
        };
        jobs.push(job(crate::accept::AcceptEngine { prop: p }, 0, "all"));
        rule.push_str(" | accept-probes: universally quantified generic functions (and payload classes the dynamic engines cannot instantiate, e.g. payloads borrowing from the deserializer's input) compiled by rustc against the rlib built from /repo; a rejection means a bound was tightened.");
    }
    // a payload of more than 64 KiB inline (code paths keyed on a size threshold). Appended after every other
    // generated job so that the per-job seeds (derived from the job index) of the older jobs stay what they were.
    if matches!(prop, "C01" | "C03" | "C04" | "C08" | "C09" | "C11" | "C12") {
        let p: &'static str = match prop {
            "C01" => "C01",
            "C03" => "C03",
            "C04" => "C04",
            "C08" => "C08",
            "C09" => "C09",
            "C11" => "C11",
            _ => "C12",
        };
        for fl in both {
            jobs.push(jobb(sized_engine("huge", p, 32), if q { 250 } else { 20_000 }, fl));
        }
    }
    if std::env::var_os("TV_BIN_TSAN").is_some() {
        let extra = tsn::jobs(prop, tier);
        if !extra.is_empty() {
            std::env::set_var("TV_TSAN_JOB_BASE", jobs.len().to_string());
            jobs.extend(extra);
            rule.push_str(" | tsan-threads: 2-4 real threads run generated programs (clone/convert/drop/send, uniqueness gates incl. the deprecated writers, make_mut, unwrap) over shared sized, thin and slice allocations in a ThreadSanitizer build with triomphe at opt-level 0; a data-race report (exit 66) or a broken payload invariant is a violation. Non-trivial: an allocation starts shared by >=2 threads, >=2 threads release handles, and (except C02) a thread asks a uniqueness gate.");
            assumptions.push("ThreadSanitizer stage: real scheduling (not replayable bit-for-bit; replays repeat the case 40 times); skipped when the library uses fences, which TSan does not model".into());
        }
    }
    Some(Plan { property: prop.to_string(), level, rule, assumptions, jobs })
}
