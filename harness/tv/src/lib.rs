//! Library face of `tv`: the plans (which engines decide which property), shared with the fuzz targets.
pub mod accept;
pub mod plans;

#[cfg(feature = "eyepatch")]
pub const FLAVOUR: &str = "eyep";
#[cfg(all(feature = "std", not(feature = "eyepatch"), feature = "dbgflavour"))]
pub const FLAVOUR: &str = "dbg";
#[cfg(all(feature = "std", not(feature = "eyepatch"), not(feature = "dbgflavour")))]
pub const FLAVOUR: &str = "all";
#[cfg(all(not(feature = "std"), not(feature = "eyepatch"), not(feature = "nsx")))]
pub const FLAVOUR: &str = "nostd";
#[cfg(all(not(feature = "std"), not(feature = "eyepatch"), feature = "nsx"))]
pub const FLAVOUR: &str = "nsx";
