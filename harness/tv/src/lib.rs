//! Library face of `tv`: the plans (which engines decide which property), shared with the fuzz targets.
pub mod plans;

#[cfg(feature = "std")]
pub const FLAVOUR: &str = "all";
#[cfg(not(feature = "std"))]
pub const FLAVOUR: &str = "nostd";
