//! "The impl is there for every type the property quantifies over": generic probe functions compiled by rustc
//! against the rlib built from /repo (default features, guard off). Each probe is universally quantified
//! (`fn p<T: Bound>() { need::<Handle<T>: Trait>() }`) or instantiates a class the dynamic engines cannot
//! reach without making the *harness* fail to build (payloads that borrow from the deserializer's input,
//! unsized payloads, payloads that lack Clone / Copy ...). A probe that stops compiling means a bound was
//! tightened: legal client programs of that class are no longer served. Used by C06, C14 and C17.

use std::path::PathBuf;
use std::process::Command;
use std::sync::OnceLock;

use rt::case::ByteCase;
use rt::run::{verif_root, CaseReport, Engine};
use rt::viol;

pub struct AcceptProbe {
    pub prop: &'static str,
    pub what: &'static str,
    pub src: &'static str,
}

/// the converse: a bound that must NOT be loosened (bitwise-copying constructors must keep demanding `Copy`);
/// these must be rejected with a trait-bound error
pub const REJECT_PROBES: &[AcceptProbe] = &[
    AcceptProbe { prop: "C06", what: "Arc::from_header_and_slice must reject non-Copy element types (it copies bitwise)", src: "fn p(h: u8, s: &[String]) -> Arc<HeaderSlice<u8, [String]>> { Arc::from_header_and_slice(h, s) }" },
    AcceptProbe { prop: "C06", what: "ThinArc::from_header_and_slice must reject non-Copy element types", src: "fn p(h: u8, s: &[Box<u8>]) -> ThinArc<u8, Box<u8>> { ThinArc::from_header_and_slice(h, s) }" },
    AcceptProbe { prop: "C06", what: "Arc<[T]>: From<&[T]> must reject non-Copy element types", src: "fn p(s: &[String]) -> Arc<[String]> { Arc::from(s) }" },
    AcceptProbe { prop: "C10", what: "the recorded length behind a Protected header must not be writable from safe code (field access)", src: "fn p() { let mut t = ThinArc::from_header_and_slice(1u8, &[1u16, 2]); t.with_arc_mut(|a| { Arc::get_mut(a).unwrap().header.length = 1000; }); }" },
    AcceptProbe { prop: "C10", what: "the Protected type must not deref (mutably) to the unchecked header slice", src: "fn p(x: &mut HeaderSliceWithLengthProtected<u8, u16>) -> &mut HeaderSlice<HeaderWithLength<u8>, [u16]> { &mut **x }" },
    AcceptProbe { prop: "C10", what: "a Protected Arc must not convert into the unchecked form while a ThinArc view may exist (no From/Into between the two Arc types)", src: "fn p(a: Arc<HeaderSliceWithLengthProtected<u8, u16>>) -> Arc<HeaderSlice<HeaderWithLength<u8>, [u16]>> { a.into() }" },
    AcceptProbe { prop: "C06", what: "a generic Clone-only element type is not enough for the bitwise-copying constructors", src: "fn p<T: Clone>(s: &[T]) -> Arc<[T]> { Arc::from(s) }" },
];

const PRELUDE: &str = "#![allow(unused, dead_code, deprecated)]\nuse triomphe::*;\nfn need<X: ?Sized>() {}\n";

pub const PROBES: &[AcceptProbe] = &[
    // ---- C17: serde sees through the handle for EVERY T the payload's own impl covers ----
    AcceptProbe { prop: "C17", what: "Arc<T>: Deserialize<'de> for every T: Deserialize<'de> (incl. payloads borrowing from the input)", src: "fn p<'de, T: serde::Deserialize<'de>, D: serde::Deserializer<'de>>(d: D) -> Result<Arc<T>, D::Error> { serde::Deserialize::deserialize(d) }" },
    AcceptProbe { prop: "C17", what: "UniqueArc<T>: Deserialize<'de> for every T: Deserialize<'de>", src: "fn p<'de, T: serde::Deserialize<'de>, D: serde::Deserializer<'de>>(d: D) -> Result<UniqueArc<T>, D::Error> { serde::Deserialize::deserialize(d) }" },
    AcceptProbe { prop: "C17", what: "Arc<T>: Serialize for every T: Serialize", src: "fn p<T: serde::Serialize, S: serde::Serializer>(a: &Arc<T>, s: S) -> Result<S::Ok, S::Error> { serde::Serialize::serialize(a, s) }" },
    AcceptProbe { prop: "C17", what: "UniqueArc<T>: Serialize for every T: Serialize", src: "fn p<T: serde::Serialize, S: serde::Serializer>(a: &UniqueArc<T>, s: S) -> Result<S::Ok, S::Error> { serde::Serialize::serialize(a, s) }" },
    AcceptProbe { prop: "C17", what: "zero-copy: Arc<&'de str> from a borrowed-str deserializer", src: "fn p<'de>(s: &'de str) -> Arc<&'de str> { use serde::Deserialize; Arc::<&'de str>::deserialize(serde::de::value::BorrowedStrDeserializer::<serde::de::value::Error>::new(s)).unwrap() }" },
    AcceptProbe { prop: "C17", what: "zero-copy: UniqueArc<&'de [u8]> from a borrowed-bytes deserializer", src: "fn p<'de>(s: &'de [u8]) -> UniqueArc<&'de [u8]> { use serde::Deserialize; UniqueArc::<&'de [u8]>::deserialize(serde::de::value::BorrowedBytesDeserializer::<serde::de::value::Error>::new(s)).unwrap() }" },
    AcceptProbe { prop: "C17", what: "DeserializeOwned payloads still work through the generic path", src: "fn p<T: serde::de::DeserializeOwned>(x: u64) -> Result<Arc<T>, serde::de::value::Error> { use serde::Deserialize; Arc::<T>::deserialize(serde::de::value::U64Deserializer::new(x)) }" },
    // ---- C14: comparison / hash / format impls exist for every payload that has them, unsized ones included ----
    AcceptProbe { prop: "C14", what: "Arc<T>: PartialEq + Eq for T: ?Sized", src: "fn p<T: ?Sized + Eq>(a: &Arc<T>, b: &Arc<T>) -> bool { fn eq<X: Eq>() {} eq::<Arc<T>>(); a == b && !(a != b) }" },
    AcceptProbe { prop: "C14", what: "Arc<T>: PartialOrd + Ord for T: ?Sized", src: "fn p<T: ?Sized + Ord>(a: &Arc<T>, b: &Arc<T>) -> std::cmp::Ordering { let _ = a.partial_cmp(b); let _ = (a < b, a <= b, a > b, a >= b); a.cmp(b) }" },
    AcceptProbe { prop: "C14", what: "Arc<T>: Hash for T: ?Sized", src: "fn p<T: ?Sized + std::hash::Hash, H: std::hash::Hasher>(a: &Arc<T>, h: &mut H) { std::hash::Hash::hash(a, h) }" },
    AcceptProbe { prop: "C14", what: "Arc<T>: Debug + Display + Pointer for T: ?Sized", src: "fn p<T: ?Sized + std::fmt::Debug + std::fmt::Display>(a: &Arc<T>) -> String { format!(\"{:?} {} {:p}\", a, a, *a) }" },
    AcceptProbe { prop: "C14", what: "Arc<T>: Borrow<T> + AsRef<T> for T: ?Sized (map keys)", src: "fn p<T: ?Sized>(a: &Arc<T>) -> (&T, &T) { (std::borrow::Borrow::borrow(a), a.as_ref()) }" },
    AcceptProbe { prop: "C14", what: "HashMap<Arc<str>, _> looked up by &str, BTreeMap<Arc<[u8]>, _> by &[u8]", src: "fn p<'a>(m: &'a std::collections::HashMap<Arc<str>, u8>, b: &'a std::collections::BTreeMap<Arc<[u8]>, u8>) -> (Option<&'a u8>, Option<&'a u8>) { (m.get(\"k\"), b.get(&[1u8, 2][..])) }" },
    AcceptProbe { prop: "C14", what: "ThinArc<H,T>: PartialEq + Eq + PartialOrd + Ord + Hash + Debug", src: "fn p<H: Ord + std::hash::Hash + std::fmt::Debug, T: Ord + std::hash::Hash + std::fmt::Debug, S: std::hash::Hasher>(a: &ThinArc<H, T>, b: &ThinArc<H, T>, s: &mut S) -> String { fn eq<X: Eq>() {} eq::<ThinArc<H, T>>(); let _ = (a == b, a != b, a < b, a.cmp(b), a.partial_cmp(b)); std::hash::Hash::hash(a, s); format!(\"{:?} {:p}\", a, *a) }" },
    AcceptProbe { prop: "C14", what: "ThinArc<H,T>: PartialEq / PartialOrd for partially ordered payloads", src: "fn p<H: PartialOrd, T: PartialOrd>(a: &ThinArc<H, T>, b: &ThinArc<H, T>) -> bool { let _ = a.partial_cmp(b); a == b }" },
    AcceptProbe { prop: "C14", what: "OffsetArc<T>: PartialEq + Debug", src: "fn p<T: PartialEq + std::fmt::Debug>(a: &OffsetArc<T>, b: &OffsetArc<T>) -> String { let _ = (a == b, a != b); format!(\"{:?}\", a) }" },
    AcceptProbe { prop: "C14", what: "ArcBorrow<T>: PartialEq + Eq + Debug for T: ?Sized", src: "fn p<'a, T: ?Sized + Eq + std::fmt::Debug>(a: &ArcBorrow<'a, T>, b: &ArcBorrow<'a, T>) -> String { fn eq<X: Eq>() {} eq::<ArcBorrow<'a, T>>(); let _ = (a == b, a != b); format!(\"{:?}\", a) }" },
    AcceptProbe { prop: "C14", what: "ArcUnion<A,B>: PartialEq + Debug", src: "fn p<A: PartialEq + std::fmt::Debug, B: PartialEq + std::fmt::Debug>(a: &ArcUnion<A, B>, b: &ArcUnion<A, B>) -> String { let _ = (a == b, a != b); format!(\"{:?}\", a) }" },
    AcceptProbe { prop: "C14", what: "HeaderSlice / HeaderWithLength: comparison, hash, Debug derive through", src: "fn p<H: Ord + std::hash::Hash + std::fmt::Debug, T: Ord + std::hash::Hash + std::fmt::Debug, S: std::hash::Hasher>(a: &HeaderSlice<HeaderWithLength<H>, [T]>, b: &HeaderSlice<HeaderWithLength<H>, [T]>, s: &mut S) -> String { let _ = (a == b, a < b, a.cmp(b)); std::hash::Hash::hash(a, s); format!(\"{:?}\", a) }" },
    // ---- C06: every constructor serves the whole class of element types it is documented for ----
    AcceptProbe { prop: "C06", what: "Arc::new / From<T> / From<Box<T>> for every T (no Clone, no Default needed)", src: "fn p<T>(a: T, b: T, c: Box<T>) -> (Arc<T>, Arc<T>, Arc<T>) { (Arc::new(a), Arc::from(b), Arc::from(c)) }" },
    AcceptProbe { prop: "C06", what: "Arc<[T]>: From<Vec<T>> and FromIterator<T> for every T (no Clone / Copy needed)", src: "fn p<T, I: Iterator<Item = T>>(v: Vec<T>, i: I) -> (Arc<[T]>, Arc<[T]>) { (Arc::from(v), i.collect()) }" },
    AcceptProbe { prop: "C06", what: "UniqueArc<[T]>: FromIterator<T> for every T", src: "fn p<T, I: Iterator<Item = T>>(i: I) -> UniqueArc<[T]> { i.collect() }" },
    AcceptProbe { prop: "C06", what: "Arc<[T]>: From<&[T]> for T: Copy; Arc<str>: From<&str> + From<String>", src: "fn p<T: Copy>(s: &[T], a: &str, b: String) -> (Arc<[T]>, Arc<str>, Arc<str>) { (Arc::from(s), Arc::from(a), Arc::from(b)) }" },
    AcceptProbe { prop: "C06", what: "from_header_and_iter / _vec for every H, T; from_header_and_slice for T: Copy; from_header_and_str", src: "fn p<H, T, I: Iterator<Item = T> + ExactSizeIterator>(h1: H, h2: H, i: I, v: Vec<T>) -> (Arc<HeaderSlice<H, [T]>>, Arc<HeaderSlice<H, [T]>>) { (Arc::from_header_and_iter(h1, i), Arc::from_header_and_vec(h2, v)) } fn q<H, T: Copy>(h: H, s: &[T], h2: H, st: &str) -> (Arc<HeaderSlice<H, [T]>>, Arc<HeaderSlice<H, str>>) { (Arc::from_header_and_slice(h, s), Arc::from_header_and_str(h2, st)) }" },
    AcceptProbe { prop: "C06", what: "ThinArc::from_header_and_iter for every H, T; from_header_and_slice for T: Copy", src: "fn p<H, T, I: Iterator<Item = T> + ExactSizeIterator>(h: H, i: I) -> ThinArc<H, T> { ThinArc::from_header_and_iter(h, i) } fn q<H, T: Copy>(h: H, s: &[T]) -> ThinArc<H, T> { ThinArc::from_header_and_slice(h, s) }" },
    AcceptProbe { prop: "C06", what: "Default for Arc<T> where T: Default; header erasure both ways for T: ?Sized", src: "fn p<T: Default>() -> Arc<T> { Default::default() } fn q<T: ?Sized>(a: Arc<T>) -> Arc<T> { let h: Arc<HeaderSlice<(), T>> = a.into(); h.into() }" },
];

pub struct Lib {
    rlib: PathBuf,
    deps: PathBuf,
}

fn lib() -> &'static Result<Lib, String> {
    static L: OnceLock<Result<Lib, String>> = OnceLock::new();
    L.get_or_init(|| {
        let td = verif_root().join("harness/target/probe");
        let repo = std::env::var("VERIF_REPO").unwrap_or_else(|_| "/repo".into());
        let o = Command::new("cargo")
            .args(["build", "--release", "--offline", "--manifest-path", &format!("{}/Cargo.toml", repo), "--target-dir"])
            .arg(&td)
            .env("RUSTFLAGS", "")
            .env_remove("CARGO_ENCODED_RUSTFLAGS")
            .output()
            .map_err(|e| format!("cargo: {}", e))?;
        if !o.status.success() {
            return Err(format!("building /repo for the probes failed:\n{}", String::from_utf8_lossy(&o.stderr)));
        }
        let rlib = td.join("release/libtriomphe.rlib");
        if !rlib.exists() {
            return Err("libtriomphe.rlib not found".into());
        }
        Ok(Lib { rlib, deps: td.join("release/deps") })
    })
}

fn find_dep(deps: &std::path::Path, name: &str) -> Option<PathBuf> {
    let mut best: Option<(std::time::SystemTime, PathBuf)> = None;
    for e in std::fs::read_dir(deps).ok()?.flatten() {
        let f = e.file_name().to_string_lossy().into_owned();
        if f.starts_with(&format!("lib{}-", name)) && f.ends_with(".rlib") {
            let t = e.metadata().and_then(|m| m.modified()).unwrap_or(std::time::UNIX_EPOCH);
            if best.as_ref().map(|b| t > b.0).unwrap_or(true) {
                best = Some((t, e.path()));
            }
        }
    }
    best.map(|b| b.1)
}

pub struct AcceptEngine {
    pub prop: &'static str,
}

impl AcceptEngine {
    /// (probe, must be rejected)
    fn mine(&self) -> Vec<(&'static AcceptProbe, bool)> {
        PROBES.iter().filter(|p| p.prop == self.prop).map(|p| (p, false)).chain(REJECT_PROBES.iter().filter(|p| p.prop == self.prop).map(|p| (p, true))).collect()
    }
}

impl Engine for AcceptEngine {
    fn name(&self) -> String {
        format!("accept-probes/{}", self.prop)
    }
    fn params_len(&self) -> usize {
        1
    }
    fn ops_range(&self) -> (usize, usize) {
        (0, 0)
    }
    fn enum_len(&self) -> Option<u64> {
        Some(self.mine().len() as u64)
    }
    fn enum_at(&self, i: u64) -> Option<ByteCase> {
        Some(ByteCase { params: vec![i as u8], ops: vec![] })
    }
    fn run(&self, c: &ByteCase, trace: bool) -> CaseReport {
        let _ = viol::take();
        let probes = self.mine();
        let (p, must_reject) = probes[c.p(0) as usize % probes.len()];
        let mut tr = vec![];
        let props: &'static [&'static str] = match self.prop {
            "C17" => &["C17"],
            "C14" => &["C14"],
            "C10" => &["C10"],
            _ => &["C06"],
        };
        match lib() {
            Err(e) => viol::report_sig(&["C06", "C10", "C14", "C17"], "M.probe-lib", "probe-lib".into(), e.clone()),
            Ok(l) => {
                let dir = std::env::temp_dir().join(format!("tv-accept-{}", std::process::id()));
                let _ = std::fs::create_dir_all(&dir);
                let file = dir.join(format!("a{}.rs", c.p(0)));
                let src = format!("{}{}\n", PRELUDE, p.src);
                let _ = std::fs::write(&file, &src);
                let mut cmd = Command::new("rustc");
                cmd.args(["--edition", "2021", "--crate-type", "lib", "--emit=metadata", "--error-format=short", "-o"])
                    .arg(dir.join(format!("a{}.rmeta", c.p(0))))
                    .arg("-L")
                    .arg(format!("dependency={}", l.deps.display()))
                    .arg("--extern")
                    .arg(format!("triomphe={}", l.rlib.display()));
                if let Some(s) = find_dep(&l.deps, "serde") {
                    cmd.arg("--extern").arg(format!("serde={}", s.display()));
                }
                let o = cmd.arg(&file).env_remove("RUSTFLAGS").output();
                match o {
                    Err(e) => viol::report_sig(&["C06", "C10", "C14", "C17"], "M.probe-rustc", "probe-rustc".into(), format!("rustc: {}", e)),
                    Ok(o) => {
                        let err = String::from_utf8_lossy(&o.stderr).into_owned();
                        if trace {
                            tr.push(format!("probe: {}", p.what));
                            tr.push(format!("source: {}", p.src));
                            tr.push(format!("rustc: {}", if o.status.success() { "accepted".to_string() } else { err.lines().filter(|l| l.contains("error")).take(3).collect::<Vec<_>>().join(" | ") }));
                        }
                        if must_reject {
                            if o.status.success() {
                                viol::report_sig(props, "A.bound-loosened", format!("reject:{}", p.what), format!("a client program that must be rejected compiles — {}", p.what));
                            } else if !["E0277", "E0308", "E0599", "E0609", "E0610", "E0614", "E0615", "E0616"].iter().any(|c| err.contains(c)) {
                                viol::report_sig(&["C06", "C10", "C14", "C17"], "M.probe-rustc", "probe-rustc".into(), format!("reject probe failed for an unexpected reason: {}", err.lines().filter(|l| l.contains("error")).take(2).collect::<Vec<_>>().join(" | ")));
                            }
                        } else if !o.status.success() {
                            let first = err.lines().filter(|l| l.contains("error")).take(2).collect::<Vec<_>>().join(" | ");
                            viol::report_sig(props, "A.bound-tightened", format!("accept:{}", p.what), format!("a client program that must compile is rejected — {}: {}", p.what, first));
                        }
                    }
                }
                let _ = std::fs::remove_dir_all(&dir);
            }
        }
        CaseReport { viols: viol::take(), nontrivial: true, labels: vec!["accept-probe"], trace: tr }
    }
}
