//! `tvt` — worker / replay binary of the ThreadSanitizer flavour. Built by `./check` with
//! `cargo +nightly build -Zbuild-std -Zsanitizer=thread --profile tsan`; the system allocator is the
//! global allocator (ThreadSanitizer intercepts malloc/free and treats a free as a write).
//! The plan is the one `tv` uses: TV_TSAN_JOB_BASE placeholder jobs, then tsn::jobs().

use rt::case::ByteCase;
use rt::run::{self, CaseReport, Engine, Job, Plan, Tier, WorkerArgs};

struct Placeholder;
impl Engine for Placeholder {
    fn name(&self) -> String {
        "placeholder".into()
    }
    fn params_len(&self) -> usize {
        0
    }
    fn ops_range(&self) -> (usize, usize) {
        (0, 0)
    }
    fn run(&self, _c: &ByteCase, _t: bool) -> CaseReport {
        CaseReport { viols: vec![], nontrivial: false, labels: vec![], trace: vec![] }
    }
}

fn arg(args: &[String], name: &str) -> Option<String> {
    args.iter().position(|a| a == name).and_then(|i| args.get(i + 1).cloned())
}

fn plan(prop: &str, tier: Tier) -> Plan {
    let base: usize = std::env::var("TV_TSAN_JOB_BASE").ok().and_then(|s| s.parse().ok()).unwrap_or(0);
    let mut jobs: Vec<Job> = (0..base).map(|_| Job { engine: Box::new(Placeholder), cases: 0, flavour: "none" }).collect();
    jobs.extend(tsn::jobs(prop, tier));
    Plan { property: prop.to_string(), level: "", rule: String::new(), assumptions: vec![], jobs }
}

fn main() {
    let args: Vec<String> = std::env::args().collect();
    let seed: u64 = arg(&args, "--seed").or_else(|| std::env::var("VERIF_SEED").ok()).and_then(|s| s.parse().ok()).unwrap_or(1);
    match args.get(1).map(|s| s.as_str()).unwrap_or("") {
        "worker" => {
            let prop = arg(&args, "--property").expect("--property");
            let tier = Tier::parse(&arg(&args, "--tier").unwrap()).unwrap();
            let a = WorkerArgs {
                property: prop.clone(),
                tier,
                seed,
                index: arg(&args, "--index").unwrap().parse().unwrap(),
                nworkers: arg(&args, "--nworkers").unwrap().parse().unwrap(),
                out: arg(&args, "--out").unwrap().into(),
                flavour: "tsan".into(),
            };
            std::process::exit(run::worker(&plan(&prop, tier), &a));
        }
        "replay" => {
            let path = std::path::PathBuf::from(args.get(2).expect("replay file"));
            let quiet = args.iter().any(|a| a == "--quiet");
            let Some(rf) = run::parse_replay(&path) else {
                eprintln!("cannot parse replay file {}", path.display());
                std::process::exit(2);
            };
            std::process::exit(run::replay_case(&plan(&rf.property, rf.tier), &rf.engine, &rf.case, quiet));
        }
        _ => {
            eprintln!("usage: tvt worker|replay ...");
            std::process::exit(2);
        }
    }
}
