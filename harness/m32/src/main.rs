//! C16 on a 32-bit `usize`: one clone entry point with the count preset, executed by Miri for
//! i686-unknown-linux-gnu (`cargo +nightly miri run --target i686-unknown-linux-gnu -- <entry> <start>`).
//! The entry table is the one of harness/eng/src/c16.rs (generated from it by tools/gen_m32.py); the counter's
//! address is learnt from heap_ptr of an Arc view instead of the shim.

use std::panic::{catch_unwind, AssertUnwindSafe};
use std::sync::atomic::{AtomicUsize, Ordering};
use triomphe::{Arc, ArcBorrow, ArcUnion, HeaderSlice, OffsetArc, ThinArc};

trait Dy {
    fn v(&self) -> u32;
}
impl Dy for u32 {
    fn v(&self) -> u32 {
        *self
    }
}

/// the count must read 1 and, where a heap_ptr is available, the counter is the first word of the block
fn learn(f: impl FnOnce() -> usize, heap: Option<usize>) -> usize {
    let c = f();
    let addr = heap.unwrap_or_else(|| LAST.with(|l| l.get()));
    if addr == 0 || c != 1 {
        println!("SETUP-FAILED addr={:#x} count={}", addr, c);
        std::process::exit(4);
    }
    addr
}
thread_local! {
    /// for handle kinds without heap_ptr: the block start noted from the Arc the handle was made from
    static LAST: std::cell::Cell<usize> = const { std::cell::Cell::new(0) };
}
fn note<T: ?Sized>(a: Arc<T>) -> Arc<T> {
    LAST.with(|l| l.set(a.heap_ptr() as usize));
    a
}

fn preset(addr: usize, start: usize) {
    unsafe { (*(addr as *const AtomicUsize)).store(start, Ordering::SeqCst) }
}
fn current(addr: usize) -> usize {
    unsafe { (*(addr as *const AtomicUsize)).load(Ordering::SeqCst) }
}

fn child_main(entry: usize, start: usize) -> ! {
    use std::io::Write;
    let addr;
    let r: Result<(), ()> = match entry {
        0 => {
            let a = std::mem::ManuallyDrop::new(Arc::new(7u64));
            addr = learn(|| Arc::count(&a), Some(a.heap_ptr() as usize));
            preset(addr, start);
            catch_unwind(AssertUnwindSafe(|| std::mem::forget(a.clone()))).map_err(|_| ())
        }
        1 => {
            let a: std::mem::ManuallyDrop<Arc<[u16]>> = std::mem::ManuallyDrop::new(Arc::from(vec![1u16, 2, 3]));
            addr = learn(|| Arc::count(&a), Some(a.heap_ptr() as usize));
            preset(addr, start);
            catch_unwind(AssertUnwindSafe(|| std::mem::forget(a.clone()))).map_err(|_| ())
        }
        2 => {
            let raw: *const u32 = Arc::into_raw(Arc::new(5u32));
            let a: std::mem::ManuallyDrop<Arc<dyn Dy>> = std::mem::ManuallyDrop::new(unsafe { Arc::from_raw(raw as *const dyn Dy) });
            addr = learn(|| Arc::count(&a), Some(a.heap_ptr() as usize));
            preset(addr, start);
            catch_unwind(AssertUnwindSafe(|| std::mem::forget(a.clone()))).map_err(|_| ())
        }
        3 => {
            let t = std::mem::ManuallyDrop::new(ThinArc::from_header_and_slice(9u8, &[1u32, 2]));
            addr = learn(|| ThinArc::strong_count(&t), Some(t.heap_ptr() as usize));
            preset(addr, start);
            catch_unwind(AssertUnwindSafe(|| std::mem::forget(t.clone()))).map_err(|_| ())
        }
        4 | 5 | 10 => {
            let o = std::mem::ManuallyDrop::new(Arc::into_raw_offset(note(Arc::new(3u64))));
            addr = learn(|| OffsetArc::strong_count(&o), None);
            preset(addr, start);
            catch_unwind(AssertUnwindSafe(|| match entry {
                4 => std::mem::forget(o.clone()),
                5 => std::mem::forget(o.clone_arc()),
                _ => std::mem::forget(o.with_arc(|a| a.clone())),
            }))
            .map_err(|_| ())
        }
        6 | 12 => {
            let a = std::mem::ManuallyDrop::new(Arc::new(3u64));
            let b: ArcBorrow<'_, u64> = a.borrow_arc();
            addr = learn(|| ArcBorrow::strong_count(&b), Some(a.heap_ptr() as usize));
            preset(addr, start);
            catch_unwind(AssertUnwindSafe(|| {
                if entry == 6 {
                    std::mem::forget(b.clone_arc())
                } else {
                    std::mem::forget(b.with_arc(|x| x.clone()))
                }
            }))
            .map_err(|_| ())
        }
        7 => {
            let u: std::mem::ManuallyDrop<ArcUnion<u64, u8>> = std::mem::ManuallyDrop::new(ArcUnion::from_first(note(Arc::new(1u64))));
            addr = learn(|| ArcUnion::strong_count(&u), None);
            preset(addr, start);
            catch_unwind(AssertUnwindSafe(|| std::mem::forget(u.clone()))).map_err(|_| ())
        }
        8 => {
            let u: std::mem::ManuallyDrop<ArcUnion<u64, u8>> = std::mem::ManuallyDrop::new(ArcUnion::from_second(note(Arc::new(1u8))));
            addr = learn(|| ArcUnion::strong_count(&u), None);
            preset(addr, start);
            catch_unwind(AssertUnwindSafe(|| std::mem::forget(u.clone()))).map_err(|_| ())
        }
        9 => {
            let t = std::mem::ManuallyDrop::new(ThinArc::from_header_and_slice(9u8, &[1u32, 2]));
            addr = learn(|| ThinArc::strong_count(&t), Some(t.heap_ptr() as usize));
            preset(addr, start);
            catch_unwind(AssertUnwindSafe(|| std::mem::forget(t.with_arc(|a| a.clone())))).map_err(|_| ())
        }
        11 => {
            let a = std::mem::ManuallyDrop::new(Arc::new(3u64));
            addr = learn(|| Arc::count(&a), Some(a.heap_ptr() as usize));
            preset(addr, start);
            catch_unwind(AssertUnwindSafe(|| std::mem::forget(a.with_raw_offset_arc(|o| o.clone())))).map_err(|_| ())
        }
        13 => {
                        {
                use arc_swap::RefCnt;
                let a = std::mem::ManuallyDrop::new(Arc::new(3u64));
                addr = learn(|| Arc::count(&a), Some(a.heap_ptr() as usize));
                preset(addr, start);
                catch_unwind(AssertUnwindSafe(|| {
                    let _ = <Arc<u64> as RefCnt>::inc(&*a);
                }))
                .map_err(|_| ())
            }
            #[cfg(any())]
            {
                let a = std::mem::ManuallyDrop::new(Arc::new(3u64));
                addr = learn(|| Arc::count(&a), Some(a.heap_ptr() as usize));
                preset(addr, start);
                catch_unwind(AssertUnwindSafe(|| std::mem::forget(a.clone()))).map_err(|_| ())
            }
        }
        14 => {
            let a = std::mem::ManuallyDrop::new(Arc::from_header_and_slice(1u16, &[1u8, 2, 3]));
            addr = learn(|| Arc::count(&a), Some(a.heap_ptr() as usize));
            preset(addr, start);
            catch_unwind(AssertUnwindSafe(|| std::mem::forget(a.clone()))).map_err(|_| ())
        }
        16 | 17 | 18 => {
            let a = std::mem::ManuallyDrop::new(Arc::new(7u64));
            let mut d = std::mem::ManuallyDrop::new(Arc::new(8u64));
            addr = learn(|| Arc::count(&a), Some(a.heap_ptr() as usize));
            preset(addr, start);
            catch_unwind(AssertUnwindSafe(|| match entry {
                16 => Clone::clone_from(&mut *d, &*a),
                17 => {
                    let mut od = std::mem::ManuallyDrop::new(Some(unsafe { std::ptr::read(&*d) }));
                    let os = std::mem::ManuallyDrop::new(Some(unsafe { std::ptr::read(&*a) }));
                    Clone::clone_from(&mut *od, &*os);
                }
                _ => {
                    let mut vd = std::mem::ManuallyDrop::new(vec![unsafe { std::ptr::read(&*d) }]);
                    let vs = std::mem::ManuallyDrop::new(vec![unsafe { std::ptr::read(&*a) }]);
                    Clone::clone_from(&mut *vd, &*vs);
                }
            }))
            .map_err(|_| ())
        }
        19 => {
            let a: std::mem::ManuallyDrop<Arc<[u16]>> = std::mem::ManuallyDrop::new(Arc::from(vec![1u16, 2, 3]));
            let mut d: std::mem::ManuallyDrop<Arc<[u16]>> = std::mem::ManuallyDrop::new(Arc::from(vec![4u16]));
            addr = learn(|| Arc::count(&a), Some(a.heap_ptr() as usize));
            preset(addr, start);
            catch_unwind(AssertUnwindSafe(|| Clone::clone_from(&mut *d, &*a))).map_err(|_| ())
        }
        20 => {
            let t = std::mem::ManuallyDrop::new(ThinArc::from_header_and_slice(9u8, &[1u32, 2]));
            let mut d = std::mem::ManuallyDrop::new(ThinArc::from_header_and_slice(1u8, &[3u32]));
            addr = learn(|| ThinArc::strong_count(&t), Some(t.heap_ptr() as usize));
            preset(addr, start);
            catch_unwind(AssertUnwindSafe(|| Clone::clone_from(&mut *d, &*t))).map_err(|_| ())
        }
        21 => {
            let o = std::mem::ManuallyDrop::new(Arc::into_raw_offset(note(Arc::new(3u64))));
            let mut d = std::mem::ManuallyDrop::new(Arc::into_raw_offset(Arc::new(4u64)));
            addr = learn(|| OffsetArc::strong_count(&o), None);
            preset(addr, start);
            catch_unwind(AssertUnwindSafe(|| Clone::clone_from(&mut *d, &*o))).map_err(|_| ())
        }
        22 | 23 => {
            let u: std::mem::ManuallyDrop<ArcUnion<u64, u8>> =
                std::mem::ManuallyDrop::new(if entry == 22 { ArcUnion::from_first(note(Arc::new(1u64))) } else { ArcUnion::from_second(note(Arc::new(1u8))) });
            let mut d: std::mem::ManuallyDrop<ArcUnion<u64, u8>> =
                std::mem::ManuallyDrop::new(if start & 1 == 0 { ArcUnion::from_first(Arc::new(2u64)) } else { ArcUnion::from_second(Arc::new(2u8)) });
            addr = learn(|| ArcUnion::strong_count(&u), None);
            preset(addr, start);
            catch_unwind(AssertUnwindSafe(|| Clone::clone_from(&mut *d, &*u))).map_err(|_| ())
        }
        24 => {
            let raw: *const u32 = Arc::into_raw(Arc::new(5u32));
            let a: std::mem::ManuallyDrop<Arc<dyn Dy>> = std::mem::ManuallyDrop::new(unsafe { Arc::from_raw(raw as *const dyn Dy) });
            let raw2: *const u32 = Arc::into_raw(Arc::new(6u32));
            let mut d: std::mem::ManuallyDrop<Arc<dyn Dy>> = std::mem::ManuallyDrop::new(unsafe { Arc::from_raw(raw2 as *const dyn Dy) });
            addr = learn(|| Arc::count(&a), Some(a.heap_ptr() as usize));
            preset(addr, start);
            catch_unwind(AssertUnwindSafe(|| Clone::clone_from(&mut *d, &*a))).map_err(|_| ())
        }
        25 => {
            let t = std::mem::ManuallyDrop::new(ThinArc::from_header_and_slice(9u8, &[1u32, 2]));
            addr = learn(|| ThinArc::strong_count(&t), Some(t.heap_ptr() as usize));
            preset(addr, start);
                        {
                use arc_swap::RefCnt;
                catch_unwind(AssertUnwindSafe(|| {
                    let _ = <ThinArc<u8, u32> as RefCnt>::inc(&*t);
                }))
                .map_err(|_| ())
            }
            #[cfg(any())]
            {
                catch_unwind(AssertUnwindSafe(|| std::mem::forget(t.clone()))).map_err(|_| ())
            }
        }
        _ => {
            let a: std::mem::ManuallyDrop<Arc<str>> = std::mem::ManuallyDrop::new(Arc::from("héllo"));
            addr = learn(|| Arc::count(&a), Some(a.heap_ptr() as usize));
            preset(addr, start);
            catch_unwind(AssertUnwindSafe(|| std::mem::forget(a.clone()))).map_err(|_| ())
        }
    };
    let _ = HeaderSlice { header: (), slice: () };
    match r {
        Ok(()) => {
            println!("AFTER count={}", current(addr));
            let _ = std::io::stdout().flush();
            std::process::exit(0)
        }
        Err(()) => {
            println!("CAUGHT count={}", current(addr));
            let _ = std::io::stdout().flush();
            std::process::exit(3)
        }
    }
}


fn main() {
    let args: Vec<String> = std::env::args().collect();
    let entry: usize = args.get(1).and_then(|s| s.parse().ok()).expect("entry");
    let start: usize = args.get(2).and_then(|s| s.parse().ok()).expect("start (decimal, fits the target's usize)");
    child_main(entry, start)
}
