//! C16 on a 32-bit `usize`: one clone entry point with the count preset, executed by Miri for
//! i686-unknown-linux-gnu (`cargo +nightly miri run --target i686-unknown-linux-gnu -- <entry> <start>`).
//! The entry table is the one of harness/eng/src/c16.rs (generated from it by tools/gen_m32.py); the counter's
//! address is learnt from heap_ptr of an Arc view instead of the shim.

use std::panic::{catch_unwind, AssertUnwindSafe};
use std::sync::atomic::{AtomicUsize, Ordering};
use triomphe::{Arc, ArcBorrow, ArcUnion, HeaderSlice, OffsetArc, ThinArc};

trait Dy {
    fn v(&self) -> u32;
}
impl Dy for u32 {
    fn v(&self) -> u32 {
        *self
    }
}

/// the count must read 1 and, where a heap_ptr is available, the counter is the first word of the block
fn learn(f: impl FnOnce() -> usize, heap: Option<usize>) -> usize {
    let c = f();
    let addr = heap.unwrap_or_else(|| LAST.with(|l| l.get()));
    if addr == 0 || c != 1 {
        println!("SETUP-FAILED addr={:#x} count={}", addr, c);
        std::process::exit(4);
    }
    addr
}
thread_local! {
    /// for handle kinds without heap_ptr: the block start noted from the Arc the handle was made from
    static LAST: std::cell::Cell<usize> = const { std::cell::Cell::new(0) };
}
fn note<T: ?Sized>(a: Arc<T>) -> Arc<T> {
    LAST.with(|l| l.set(a.heap_ptr() as usize));
    a
}

fn preset(addr: usize, start: usize) {
    unsafe { (*(addr as *const AtomicUsize)).store(start, Ordering::SeqCst) }
}
fn current(addr: usize) -> usize {
    unsafe { (*(addr as *const AtomicUsize)).load(Ordering::SeqCst) }
}

fn child_main(entry: usize, start: usize) -> ! {
    use std::io::Write;
    let addr;
    let r: Result<(), ()> = match entry {
        0 => {
            let a = std::mem::ManuallyDrop::new(Arc::new(7u64));
            addr = learn(|| Arc::count(&a), Some(a.heap_ptr() as usize));
            preset(addr, start);
            catch_unwind(AssertUnwindSafe(|| std::mem::forget(a.clone()))).map_err(|_| ())
        }
        1 => {
            let a: std::mem::ManuallyDrop<Arc<[u16]>> = std::mem::ManuallyDrop::new(Arc::from(vec![1u16, 2, 3]));
            addr = learn(|| Arc::count(&a), Some(a.heap_ptr() as usize));
            preset(addr, start);
            catch_unwind(AssertUnwindSafe(|| std::mem::forget(a.clone()))).map_err(|_| ())
        }
        2 => {
            let raw: *const u32 = Arc::into_raw(Arc::new(5u32));
            let a: std::mem::ManuallyDrop<Arc<dyn Dy>> = std::mem::ManuallyDrop::new(unsafe { Arc::from_raw(raw as *const dyn Dy) });
            addr = learn(|| Arc::count(&a), Some(a.heap_ptr() as usize));
            preset(addr, start);
            catch_unwind(AssertUnwindSafe(|| std::mem::forget(a.clone()))).map_err(|_| ())
        }
        3 => {
            let t = std::mem::ManuallyDrop::new(ThinArc::from_header_and_slice(9u8, &[1u32, 2]));
            addr = learn(|| ThinArc::strong_count(&t), Some(t.heap_ptr() as usize));
            preset(addr, start);
            catch_unwind(AssertUnwindSafe(|| std::mem::forget(t.clone()))).map_err(|_| ())
        }
        4 | 5 | 10 => {
            let o = std::mem::ManuallyDrop::new(Arc::into_raw_offset(note(Arc::new(3u64))));
            addr = learn(|| OffsetArc::strong_count(&o), None);
            preset(addr, start);
            catch_unwind(AssertUnwindSafe(|| match entry {
                4 => std::mem::forget(o.clone()),
                5 => std::mem::forget(o.clone_arc()),
                _ => std::mem::forget(o.with_arc(|a| a.clone())),
            }))
            .map_err(|_| ())
        }
        6 | 12 => {
            let a = std::mem::ManuallyDrop::new(Arc::new(3u64));
            let b: ArcBorrow<'_, u64> = a.borrow_arc();
            addr = learn(|| ArcBorrow::strong_count(&b), Some(a.heap_ptr() as usize));
            preset(addr, start);
            catch_unwind(AssertUnwindSafe(|| {
                if entry == 6 {
                    std::mem::forget(b.clone_arc())
                } else {
                    std::mem::forget(b.with_arc(|x| x.clone()))
                }
            }))
            .map_err(|_| ())
        }
        7 => {
            let u: std::mem::ManuallyDrop<ArcUnion<u64, u8>> = std::mem::ManuallyDrop::new(ArcUnion::from_first(note(Arc::new(1u64))));
            addr = learn(|| ArcUnion::strong_count(&u), None);
            preset(addr, start);
            catch_unwind(AssertUnwindSafe(|| std::mem::forget(u.clone()))).map_err(|_| ())
        }
        8 => {
            let u: std::mem::ManuallyDrop<ArcUnion<u64, u8>> = std::mem::ManuallyDrop::new(ArcUnion::from_second(note(Arc::new(1u8))));
            addr = learn(|| ArcUnion::strong_count(&u), None);
            preset(addr, start);
            catch_unwind(AssertUnwindSafe(|| std::mem::forget(u.clone()))).map_err(|_| ())
        }
        9 => {
            let t = std::mem::ManuallyDrop::new(ThinArc::from_header_and_slice(9u8, &[1u32, 2]));
            addr = learn(|| ThinArc::strong_count(&t), Some(t.heap_ptr() as usize));
            preset(addr, start);
            catch_unwind(AssertUnwindSafe(|| std::mem::forget(t.with_arc(|a| a.clone())))).map_err(|_| ())
        }
        11 => {
            let a = std::mem::ManuallyDrop::new(Arc::new(3u64));
            addr = learn(|| Arc::count(&a), Some(a.heap_ptr() as usize));
            preset(addr, start);
            catch_unwind(AssertUnwindSafe(|| std::mem::forget(a.with_raw_offset_arc(|o| o.clone())))).map_err(|_| ())
        }
        13 => {
                        {
                use arc_swap::RefCnt;
                let a = std::mem::ManuallyDrop::new(Arc::new(3u64));
                addr = learn(|| Arc::count(&a), Some(a.heap_ptr() as usize));
                preset(addr, start);
                catch_unwind(AssertUnwindSafe(|| {
                    let _ = <Arc<u64> as RefCnt>::inc(&*a);
                }))
                .map_err(|_| ())
            }
            #[cfg(any())]
            {
                let a = std::mem::ManuallyDrop::new(Arc::new(3u64));
                addr = learn(|| Arc::count(&a), Some(a.heap_ptr() as usize));
                preset(addr, start);
                catch_unwind(AssertUnwindSafe(|| std::mem::forget(a.clone()))).map_err(|_| ())
            }
        }
        14 => {
            let a = std::mem::ManuallyDrop::new(Arc::from_header_and_slice(1u16, &[1u8, 2, 3]));
            addr = learn(|| Arc::count(&a), Some(a.heap_ptr() as usize));
            preset(addr, start);
            catch_unwind(AssertUnwindSafe(|| std::mem::forget(a.clone()))).map_err(|_| ())
        }
        16 | 17 | 18 => {
            let a = std::mem::ManuallyDrop::new(Arc::new(7u64));
            let mut d = std::mem::ManuallyDrop::new(Arc::new(8u64));
            addr = learn(|| Arc::count(&a), Some(a.heap_ptr() as usize));
            preset(addr, start);
            catch_unwind(AssertUnwindSafe(|| match entry {
                16 => Clone::clone_from(&mut *d, &*a),
                17 => {
                    let mut od = std::mem::ManuallyDrop::new(Some(unsafe { std::ptr::read(&*d) }));
                    let os = std::mem::ManuallyDrop::new(Some(unsafe { std::ptr::read(&*a) }));
                    Clone::clone_from(&mut *od, &*os);
                }
                _ => {
                    let mut vd = std::mem::ManuallyDrop::new(vec![unsafe { std::ptr::read(&*d) }]);
                    let vs = std::mem::ManuallyDrop::new(vec![unsafe { std::ptr::read(&*a) }]);
                    Clone::clone_from(&mut *vd, &*vs);
                }
            }))
            .map_err(|_| ())
        }
        19 => {
            let a: std::mem::ManuallyDrop<Arc<[u16]>> = std::mem::ManuallyDrop::new(Arc::from(vec![1u16, 2, 3]));
            let mut d: std::mem::ManuallyDrop<Arc<[u16]>> = std::mem::ManuallyDrop::new(Arc::from(vec![4u16]));
            addr = learn(|| Arc::count(&a), Some(a.heap_ptr() as usize));
            preset(addr, start);
            catch_unwind(AssertUnwindSafe(|| Clone::clone_from(&mut *d, &*a))).map_err(|_| ())
        }
        20 => {
            let t = std::mem::ManuallyDrop::new(ThinArc::from_header_and_slice(9u8, &[1u32, 2]));
            let mut d = std::mem::ManuallyDrop::new(ThinArc::from_header_and_slice(1u8, &[3u32]));
            addr = learn(|| ThinArc::strong_count(&t), Some(t.heap_ptr() as usize));
            preset(addr, start);
            catch_unwind(AssertUnwindSafe(|| Clone::clone_from(&mut *d, &*t))).map_err(|_| ())
        }
        21 => {
            let o = std::mem::ManuallyDrop::new(Arc::into_raw_offset(note(Arc::new(3u64))));
            let mut d = std::mem::ManuallyDrop::new(Arc::into_raw_offset(Arc::new(4u64)));
            addr = learn(|| OffsetArc::strong_count(&o), None);
            preset(addr, start);
            catch_unwind(AssertUnwindSafe(|| Clone::clone_from(&mut *d, &*o))).map_err(|_| ())
        }
        22 | 23 => {
            let u: std::mem::ManuallyDrop<ArcUnion<u64, u8>> =
                std::mem::ManuallyDrop::new(if entry == 22 { ArcUnion::from_first(note(Arc::new(1u64))) } else { ArcUnion::from_second(note(Arc::new(1u8))) });
            let mut d: std::mem::ManuallyDrop<ArcUnion<u64, u8>> =
                std::mem::ManuallyDrop::new(if start & 1 == 0 { ArcUnion::from_first(Arc::new(2u64)) } else { ArcUnion::from_second(Arc::new(2u8)) });
            addr = learn(|| ArcUnion::strong_count(&u), None);
            preset(addr, start);
            catch_unwind(AssertUnwindSafe(|| Clone::clone_from(&mut *d, &*u))).map_err(|_| ())
        }
        24 => {
            let raw: *const u32 = Arc::into_raw(Arc::new(5u32));
            let a: std::mem::ManuallyDrop<Arc<dyn Dy>> = std::mem::ManuallyDrop::new(unsafe { Arc::from_raw(raw as *const dyn Dy) });
            let raw2: *const u32 = Arc::into_raw(Arc::new(6u32));
            let mut d: std::mem::ManuallyDrop<Arc<dyn Dy>> = std::mem::ManuallyDrop::new(unsafe { Arc::from_raw(raw2 as *const dyn Dy) });
            addr = learn(|| Arc::count(&a), Some(a.heap_ptr() as usize));
            preset(addr, start);
            catch_unwind(AssertUnwindSafe(|| Clone::clone_from(&mut *d, &*a))).map_err(|_| ())
        }
        25 => {
            let t = std::mem::ManuallyDrop::new(ThinArc::from_header_and_slice(9u8, &[1u32, 2]));
            addr = learn(|| ThinArc::strong_count(&t), Some(t.heap_ptr() as usize));
            preset(addr, start);
                        {
                use arc_swap::RefCnt;
                catch_unwind(AssertUnwindSafe(|| {
                    let _ = <ThinArc<u8, u32> as RefCnt>::inc(&*t);
                }))
                .map_err(|_| ())
            }
            #[cfg(any())]
            {
                catch_unwind(AssertUnwindSafe(|| std::mem::forget(t.clone()))).map_err(|_| ())
            }
        }
        _ => {
            let a: std::mem::ManuallyDrop<Arc<str>> = std::mem::ManuallyDrop::new(Arc::from("héllo"));
            addr = learn(|| Arc::count(&a), Some(a.heap_ptr() as usize));
            preset(addr, start);
            catch_unwind(AssertUnwindSafe(|| std::mem::forget(a.clone()))).map_err(|_| ())
        }
    };
    let _ = HeaderSlice { header: (), slice: () };
    match r {
        Ok(()) => {
            println!("AFTER count={}", current(addr));
            let _ = std::io::stdout().flush();
            std::process::exit(0)
        }
        Err(()) => {
            println!("CAUGHT count={}", current(addr));
            let _ = std::io::stdout().flush();
            std::process::exit(3)
        }
    }
}


// ------------------------------------------------------------------------------------
// C11 on a 32-bit usize: raw-pointer round trips over payload shapes whose alignment is below, at and above
// the pointer width (on i686 u64 is 4-aligned, a repr(align(8)) type is not)
// ------------------------------------------------------------------------------------

trait Pat: Sized + Send + Sync + 'static {
    fn make(seed: u8) -> Self;
    fn ok(&self, seed: u8) -> bool;
}
macro_rules! pat_struct {
    ($name:ident, $align:literal, $n:literal) => {
        #[repr(align($align))]
        struct $name([u8; $n]);
        impl Pat for $name {
            fn make(seed: u8) -> Self {
                let mut b = [0u8; $n];
                for (i, x) in b.iter_mut().enumerate() {
                    *x = seed.wrapping_add(i as u8).wrapping_mul(31);
                }
                $name(b)
            }
            fn ok(&self, seed: u8) -> bool {
                self.0.iter().enumerate().all(|(i, x)| *x == seed.wrapping_add(i as u8).wrapping_mul(31))
            }
        }
        impl Dy for $name {
            fn v(&self) -> u32 {
                $n
            }
        }
    };
}
pat_struct!(P1, 1, 1);
pat_struct!(P1x3, 1, 3);
pat_struct!(P2, 2, 6);
pat_struct!(P4, 4, 4);
pat_struct!(P4x12, 4, 12);
pat_struct!(P8, 8, 8);
pat_struct!(P8x24, 8, 24);
pat_struct!(P16, 16, 16);
pat_struct!(P64, 64, 64);
pat_struct!(Z1, 1, 0);
pat_struct!(Z8, 8, 0);
pat_struct!(Z64, 64, 0);

fn bad(msg: String) -> ! {
    println!("BAD {}", msg);
    std::process::exit(1)
}

fn rt_case<S: Pat + Dy>(path: usize, seed: u8) {
    let word = std::mem::size_of::<usize>();
    let off = word.max(std::mem::align_of::<S>());
    let a = Arc::new(S::make(seed));
    let hp = a.heap_ptr() as usize;
    let ap = Arc::as_ptr(&a) as usize;
    if ap != hp + off || ap % std::mem::align_of::<S>() != 0 {
        bad(format!("as_ptr {:#x} heap_ptr {:#x}: expected the value {} bytes behind the block start", ap, hp, off));
    }
    let check = |x: &Arc<S>, want: usize, what: &str| {
        if !x.ok(seed) || Arc::count(x) != want || Arc::as_ptr(x) as usize != ap || x.heap_ptr() as usize != hp {
            bad(format!("{}: value ok={} count={} (expected {}) as_ptr {:#x} (expected {:#x})", what, x.ok(seed), Arc::count(x), want, Arc::as_ptr(x) as usize, ap));
        }
    };
    match path {
        0 => {
            let b = a.clone();
            let raw = Arc::into_raw(b);
            if raw as usize != ap {
                bad(format!("into_raw {:#x} != as_ptr {:#x}", raw as usize, ap));
            }
            let back = unsafe { Arc::from_raw(raw) };
            check(&back, 2, "into_raw/from_raw");
            drop(back);
            check(&a, 1, "after dropping the round-tripped handle");
        }
        1 => {
            let o = Arc::into_raw_offset(a.clone());
            if &*o as *const S as usize != ap || OffsetArc::strong_count(&o) != 2 || !o.ok(seed) {
                bad(format!("OffsetArc deref {:#x} count {}", &*o as *const S as usize, OffsetArc::strong_count(&o)));
            }
            let o2 = o.clone();
            let c = o2.clone_arc();
            check(&c, 4, "OffsetArc::clone + clone_arc");
            drop((o2, c));
            let back = Arc::from_raw_offset(o);
            check(&back, 2, "from_raw_offset");
        }
        2 => {
            let b = unsafe { ArcBorrow::from_ptr(Arc::as_ptr(&a)) };
            if ArcBorrow::strong_count(&b) != 1 || !b.ok(seed) {
                bad(format!("ArcBorrow::from_ptr count {}", ArcBorrow::strong_count(&b)));
            }
            let c = b.clone_arc();
            check(&c, 2, "ArcBorrow::from_ptr(as_ptr).clone_arc()");
            let n = b.with_arc(|x| Arc::count(x));
            if n != 2 {
                bad(format!("ArcBorrow::with_arc count {}", n));
            }
        }
        3 => {
            let u: ArcUnion<u8, S> = ArcUnion::from_second(a.clone());
            let u2 = u.clone();
            match u2.as_second() {
                Some(b) if b.ok(seed) && ArcBorrow::strong_count(&b) == 3 && b.get() as *const S as usize == ap => {}
                other => bad(format!("ArcUnion second: as_second is_some={} count {}", other.is_some(), ArcUnion::strong_count(&u2))),
            }
            drop((u, u2));
            check(&a, 1, "after dropping the unions");
            let v: ArcUnion<S, u8> = ArcUnion::from_first(a.clone());
            if !v.is_first() || ArcUnion::strong_count(&v) != 2 {
                bad(format!("ArcUnion first: is_first {} count {}", v.is_first(), ArcUnion::strong_count(&v)));
            }
        }
        4 => {
            let raw: *const S = Arc::into_raw(a.clone());
            let d: Arc<dyn Dy> = unsafe { Arc::from_raw(raw as *const dyn Dy) };
            if Arc::count(&d) != 2 || d.heap_ptr() as usize != hp || Arc::as_ptr(&d) as *const () as usize != ap {
                bad(format!("dyn view: count {} heap_ptr {:#x} as_ptr {:#x}", Arc::count(&d), d.heap_ptr() as usize, Arc::as_ptr(&d) as *const () as usize));
            }
            let d2 = d.clone();
            let raw2: *const dyn Dy = Arc::into_raw(d2);
            let back: Arc<S> = unsafe { Arc::from_raw(raw2 as *const S) };
            check(&back, 3, "dyn round trip");
            drop(d);
        }
        5 => {
            let n = a.with_raw_offset_arc(|o| (OffsetArc::strong_count(o), o.clone_arc()));
            check(&n.1, 2, "with_raw_offset_arc clone_arc");
            if n.0 != 1 {
                bad(format!("with_raw_offset_arc strong_count {}", n.0));
            }
        }
        6 => {
            let s: Arc<[S]> = Arc::from((0..3u8).map(|i| S::make(seed.wrapping_add(i))).collect::<Vec<S>>());
            let sp = s.heap_ptr() as usize;
            let raw = Arc::into_raw(s.clone());
            let back = unsafe { Arc::from_raw_slice(raw) };
            if Arc::count(&back) != 2 || back.len() != 3 || back.heap_ptr() as usize != sp || !back.iter().enumerate().all(|(i, e)| e.ok(seed.wrapping_add(i as u8))) {
                bad(format!("slice round trip: count {} len {}", Arc::count(&back), back.len()));
            }
            let empty: Arc<[S]> = Arc::from(Vec::<S>::new());
            let r2 = Arc::into_raw(empty);
            let e2 = unsafe { Arc::from_raw_slice(r2) };
            if e2.len() != 0 || Arc::count(&e2) != 1 {
                bad(format!("empty slice round trip: len {} count {}", e2.len(), Arc::count(&e2)));
            }
        }
        _ if std::mem::size_of::<S>() == 0 => {
            // zero-sized elements are refused by the iterator / slice constructors (documented)
        }
        _ => {
            let t: ThinArc<S, S> = ThinArc::from_header_and_iter(S::make(seed), (0..2u8).map(|i| S::make(seed.wrapping_add(1 + i))));
            let th = t.heap_ptr() as usize;
            let t2 = t.clone();
            let raw = t2.into_raw();
            let back = unsafe { ThinArc::<S, S>::from_raw(raw) };
            let cnt = back.with_arc(|x| Arc::count(x));
            if cnt != 2 || ThinArc::strong_count(&back) != 2 || back.heap_ptr() as usize != th || !back.header.header.ok(seed) || back.slice.len() != 2 || !back.slice[1].ok(seed.wrapping_add(2)) {
                bad(format!("ThinArc round trip: count {} len {}", cnt, back.slice.len()));
            }
            let fat = Arc::from_thin(back);
            if Arc::count(&fat) != 2 || fat.heap_ptr() as usize != th || (&fat.slice[0] as *const S as usize) % std::mem::align_of::<S>() != 0 {
                bad(format!("from_thin: count {}", Arc::count(&fat)));
            }
        }
    }
    println!("OK");
}

const N_SHAPES: usize = 12;
const N_PATHS: usize = 8;

fn rt_main(shape: usize, path: usize, seed: u8) {
    match shape {
        0 => rt_case::<P1>(path, seed),
        1 => rt_case::<P1x3>(path, seed),
        2 => rt_case::<P2>(path, seed),
        3 => rt_case::<P4>(path, seed),
        4 => rt_case::<P4x12>(path, seed),
        5 => rt_case::<P8>(path, seed),
        6 => rt_case::<P8x24>(path, seed),
        7 => rt_case::<P16>(path, seed),
        8 => rt_case::<P64>(path, seed),
        9 => rt_case::<Z1>(path, seed),
        10 => rt_case::<Z8>(path, seed),
        _ => rt_case::<Z64>(path, seed),
    }
}

// ------------------------------------------------------------------------------------
// C05 on a 32-bit usize: lengths whose byte size does not fit the address space must be refused
// ------------------------------------------------------------------------------------
fn ovf_main(ctor: usize, len: usize) {
    use std::mem::MaybeUninit;
    use triomphe::UniqueArc;
    let r = catch_unwind(AssertUnwindSafe(|| -> (usize, usize) {
        match ctor {
            0 => {
                let a = Arc::<[MaybeUninit<u32>]>::new_uninit_slice(len);
                (a.len(), 4)
            }
            1 => {
                let a = Arc::<[MaybeUninit<u64>]>::new_uninit_slice(len);
                (a.len(), 8)
            }
            2 => {
                let a = UniqueArc::<[MaybeUninit<u16>]>::new_uninit_slice(len);
                (a.len(), 2)
            }
            _ => {
                let a = UniqueArc::<HeaderSlice<u64, [MaybeUninit<u32>]>>::from_header_and_uninit_slice(7u64, len);
                (a.slice.len(), 4)
            }
        }
    }));
    match r {
        Ok((n, sz)) => println!("RETURNED len={} elem={}", n, sz),
        Err(_) => println!("REFUSED"),
    }
}

fn main() {
    let args0: Vec<String> = std::env::args().collect();
    if args0.get(1).map(|s| s.as_str()) == Some("ovf") {
        let g = |i: usize| -> usize { args0.get(i).and_then(|s| s.parse().ok()).expect("ovf <ctor> <len>") };
        ovf_main(g(2), g(3));
        return;
    }
    if args0.get(1).map(|s| s.as_str()) == Some("rt") {
        let g = |i: usize| -> usize { args0.get(i).and_then(|s| s.parse().ok()).expect("rt <shape> <path> <seed>") };
        let _ = (N_SHAPES, N_PATHS);
        rt_main(g(2), g(3), g(4) as u8);
        return;
    }
    main_c16()
}

fn main_c16() {
    let args: Vec<String> = std::env::args().collect();
    let entry: usize = args.get(1).and_then(|s| s.parse().ok()).expect("entry");
    let start: usize = args.get(2).and_then(|s| s.parse().ok()).expect("start (decimal, fits the target's usize)");
    child_main(entry, start)
}
