//! Evidence writer for checks that do not go through `run::parent`.
use serde_json::{json, Value};

pub fn write(property: &str, tier: &str, seed: u64, level: &str, coverage: Value, assumptions: &[String], wall_s: f64, violations: i64) {
    let ev = json!({
        "property_id": property,
        "tier": tier,
        "seed": seed,
        "level": level,
        "coverage": coverage,
        "assumptions": assumptions,
        "wall_s": wall_s,
        "violations": violations,
    });
    let dir = crate::run::verif_root().join("evidence");
    let _ = std::fs::create_dir_all(&dir);
    std::fs::write(dir.join(format!("{}.json", property)), serde_json::to_string_pretty(&ev).unwrap()).expect("write evidence");
}
