//! The common case format: a parameter block plus a list of 4-byte records.
//! proptest generates and shrinks it structurally (whole records are removed, bytes
//! shrink towards 0, which every decoder maps to the most benign choice); libFuzzer
//! inputs are cut into the same shape; replay files store it as hex.

use proptest::prelude::*;
use std::hash::{Hash, Hasher};

#[derive(Clone, Debug, PartialEq, Eq, Hash)]
pub struct ByteCase {
    pub params: Vec<u8>,
    pub ops: Vec<[u8; 4]>,
}

fn hex(b: &[u8]) -> String {
    let mut s = String::with_capacity(b.len() * 2);
    for x in b {
        s.push_str(&format!("{:02x}", x));
    }
    s
}
fn unhex(s: &str) -> Option<Vec<u8>> {
    let s = s.trim();
    if s.len() % 2 != 0 {
        return None;
    }
    (0..s.len() / 2).map(|i| u8::from_str_radix(&s[2 * i..2 * i + 2], 16).ok()).collect()
}

impl ByteCase {
    pub fn to_hex(&self) -> String {
        let flat: Vec<u8> = self.ops.iter().flat_map(|o| o.iter().copied()).collect();
        format!("{}:{}", hex(&self.params), hex(&flat))
    }
    pub fn from_hex(s: &str) -> Option<ByteCase> {
        let (p, o) = s.trim().split_once(':')?;
        let params = unhex(p)?;
        let flat = unhex(o)?;
        let ops = flat.chunks(4).filter(|c| c.len() == 4).map(|c| [c[0], c[1], c[2], c[3]]).collect();
        Some(ByteCase { params, ops })
    }
    /// Cut raw fuzzer bytes into a case.
    pub fn from_bytes(data: &[u8], params_len: usize, max_ops: usize) -> ByteCase {
        let mut params = vec![0u8; params_len];
        let n = data.len().min(params_len);
        params[..n].copy_from_slice(&data[..n]);
        let rest = &data[n..];
        let ops = rest.chunks(4).filter(|c| c.len() == 4).take(max_ops).map(|c| [c[0], c[1], c[2], c[3]]).collect();
        ByteCase { params, ops }
    }
    pub fn hash64(&self) -> u64 {
        let mut h = std::collections::hash_map::DefaultHasher::new();
        self.hash(&mut h);
        h.finish()
    }
    pub fn p(&self, i: usize) -> u8 {
        self.params.get(i).copied().unwrap_or(0)
    }
}

/// Monotone index map (shrinks with the byte): byte -> 0..n
pub fn pick(b: u8, n: usize) -> usize {
    if n == 0 {
        0
    } else {
        (b as usize * n) >> 8
    }
}

pub fn strategy(params_len: usize, min_ops: usize, max_ops: usize) -> impl Strategy<Value = ByteCase> {
    (
        proptest::collection::vec(any::<u8>(), params_len..=params_len),
        proptest::collection::vec(any::<[u8; 4]>(), min_ops..=max_ops),
    )
        .prop_map(|(params, ops)| ByteCase { params, ops })
}
