//! Violation sink. Oracles anywhere (allocator, payload destructors, engines)
//! report here; the engine collects per case.

use std::collections::BTreeMap;
use std::sync::Mutex;

use crate::alloc::untracked;

#[derive(Clone, Debug)]
pub struct Violation {
    /// properties whose oracle this clause belongs to
    pub props: &'static [&'static str],
    /// clause id, e.g. "N.count"
    pub clause: &'static str,
    /// specific signature: clause + (kind, op, input class) — the key of KNOWN_FINDINGS
    pub sig: String,
    pub msg: String,
    pub step: u32,
}

struct Sink {
    v: Vec<Violation>,
    known: Vec<String>,
    known_hits: BTreeMap<String, (u64, String)>,
    /// context the engine sets so that signatures are specific ("kind.op")
    ctx: String,
}

static SINK: Mutex<Sink> = Mutex::new(Sink {
    v: Vec::new(),
    known: Vec::new(),
    known_hits: BTreeMap::new(),
    ctx: String::new(),
});

fn lock() -> std::sync::MutexGuard<'static, Sink> {
    SINK.lock().unwrap_or_else(|e| e.into_inner())
}

pub fn set_known(sigs: Vec<String>) {
    untracked(|| lock().known = sigs);
}

/// Set the "where" part of signatures for subsequent reports (e.g. "OffsetArc.make_mut").
pub fn set_ctx(ctx: &str) {
    untracked(|| {
        let mut s = lock();
        s.ctx.clear();
        s.ctx.push_str(ctx);
    });
}

pub fn report(props: &'static [&'static str], clause: &'static str, msg: String) {
    untracked(|| {
        let mut s = lock();
        let sig = if s.ctx.is_empty() { clause.to_string() } else { format!("{}@{}", clause, s.ctx) };
        push(&mut s, props, clause, sig, msg);
    });
}

/// Report with an explicit signature (used where the input class matters, e.g. C14).
pub fn report_sig(props: &'static [&'static str], clause: &'static str, sig: String, msg: String) {
    untracked(|| {
        let mut s = lock();
        push(&mut s, props, clause, sig, msg);
    });
}

fn push(s: &mut Sink, props: &'static [&'static str], clause: &'static str, sig: String, msg: String) {
    let keyed: Vec<String> = props.iter().map(|p| format!("{}:{}", p, sig)).collect();
    if keyed.iter().any(|k| s.known.iter().any(|kn| kn == k)) {
        for k in keyed {
            if s.known.iter().any(|kn| *kn == k) {
                let e = s.known_hits.entry(k).or_insert((0, msg.clone()));
                e.0 += 1;
            }
        }
        return;
    }
    // bounded per clause (so that a flood of one clause cannot starve another), and overall
    let same = s.v.iter().filter(|v| v.clause == clause).count();
    if same < 6 && s.v.len() < 400 {
        let step = crate::alloc::step();
        s.v.push(Violation { props, clause, sig, msg, step });
    }
}

pub fn take() -> Vec<Violation> {
    untracked(|| std::mem::take(&mut lock().v))
}

pub fn any() -> bool {
    untracked(|| !lock().v.is_empty())
}

/// any violation recorded so far that belongs to property `prop` (or is fatal for every property)?
pub fn any_for(prop: &str) -> bool {
    untracked(|| lock().v.iter().any(|v| v.clause.starts_with("M.") || v.props.iter().any(|p| *p == prop)))
}

/// number of recorded violations of one clause (lets an engine re-attribute an allocator-level finding
/// to the API path that caused it)
pub fn count_clause(clause: &str) -> usize {
    untracked(|| lock().v.iter().filter(|v| v.clause == clause).count())
}

pub fn known_hits() -> BTreeMap<String, (u64, String)> {
    untracked(|| lock().known_hits.clone())
}
