//! Identity-tracked payloads.
//!
//! Every `Tok` value carries an id registered in a per-case registry with states
//! Live / Dropped. `Drop` never panics; it records "second drop", "drop of a slot
//! with a bad magic" (uninitialised or freed memory or wrong type), "drop of an
//! unknown id". Every read validates magic + Live.

use std::cell::Cell;
use std::cmp::Ordering as CmpOrdering;
use std::fmt;
use std::hash::{Hash, Hasher};
use std::marker::PhantomData;
use std::sync::Mutex;

use crate::alloc::untracked;
use crate::{sim, viol};

#[derive(Clone, Copy, Debug, PartialEq, Eq)]
pub enum State {
    Live,
    Dropped,
}

#[derive(Clone, Copy, Debug)]
pub struct TokInfo {
    pub state: State,
    pub val: u64,
    pub ty: u32,
    pub born: u32,
    pub died: u32,
    pub clone_of: u32,
    pub drops: u32,
}

struct Reg {
    toks: Vec<TokInfo>,
    clones: u64,
    z_live: [i64; 4],
    z_made: [u64; 4],
    z_dropped: [u64; 4],
}

static REG: Mutex<Reg> = Mutex::new(Reg {
    toks: Vec::new(),
    clones: 0,
    z_live: [0; 4],
    z_made: [0; 4],
    z_dropped: [0; 4],
});

fn reg() -> std::sync::MutexGuard<'static, Reg> {
    REG.lock().unwrap_or_else(|e| e.into_inner())
}

thread_local! {
    /// panic at the k-th user callback (Clone / cmp / hash / fmt) from now; 0 = never
    static PANIC_AT: Cell<i64> = const { Cell::new(0) };
    static CALLBACKS: Cell<u64> = const { Cell::new(0) };
    /// panic inside the k-th payload destructor from now (after the destruction was recorded); 0 = never
    static DROP_PANIC_AT: Cell<i64> = const { Cell::new(0) };
    static DROP_PANICS_FIRED: Cell<u64> = const { Cell::new(0) };
}

pub const NONE: u32 = u32::MAX;

/// Reset the registry (start of a case).
pub fn reset() {
    untracked(|| {
        let mut r = reg();
        r.toks.clear();
        r.clones = 0;
        r.z_live = [0; 4];
        r.z_made = [0; 4];
        r.z_dropped = [0; 4];
    });
    PANIC_AT.with(|p| p.set(0));
    CALLBACKS.with(|c| c.set(0));
    DROP_PANIC_AT.with(|p| p.set(0));
    DROP_PANICS_FIRED.with(|p| p.set(0));
}

/// Arm a panic inside the k-th (1-based) destructor of an identity-tracked payload on this thread; 0 disarms.
/// The destructor records the destruction first, so "destroyed exactly once" stays decidable; it never
/// fires while the thread is already unwinding (a second panic would abort the process).
pub fn drop_panic_at(k: i64) {
    DROP_PANIC_AT.with(|p| p.set(k));
}
pub fn drop_panics_fired() -> u64 {
    DROP_PANICS_FIRED.with(|p| p.get())
}
fn drop_point() {
    if std::thread::panicking() {
        return;
    }
    let fire = DROP_PANIC_AT.with(|p| {
        let v = p.get();
        if v > 0 {
            p.set(v - 1);
            v == 1
        } else {
            false
        }
    });
    if fire {
        DROP_PANICS_FIRED.with(|p| p.set(p.get() + 1));
        std::panic::panic_any(Injected);
    }
}

pub fn info(id: u32) -> Option<TokInfo> {
    untracked(|| reg().toks.get(id as usize).copied())
}

pub fn n_toks() -> usize {
    untracked(|| reg().toks.len())
}

pub fn clones() -> u64 {
    untracked(|| reg().clones)
}

pub fn live_ids() -> Vec<u32> {
    untracked(|| {
        reg().toks
            .iter()
            .enumerate()
            .filter(|(_, t)| t.state == State::Live)
            .map(|(i, _)| i as u32)
            .collect()
    })
}

pub fn z_live(tag: usize) -> i64 {
    untracked(|| reg().z_live[tag])
}
pub fn z_made(tag: usize) -> u64 {
    untracked(|| reg().z_made[tag])
}
pub fn z_dropped(tag: usize) -> u64 {
    untracked(|| reg().z_dropped[tag])
}

/// Arm a panic at the k-th (1-based) user callback on this thread; 0 disarms.
pub fn panic_at(k: i64) {
    PANIC_AT.with(|p| p.set(k));
    CALLBACKS.with(|c| c.set(0));
}
pub fn callbacks() -> u64 {
    CALLBACKS.with(|c| c.get())
}

pub struct Injected;

thread_local! {
    static OBSERVER: Cell<Option<*const dyn Fn(&'static str)>> = const { Cell::new(None) };
}

/// Run `f` with `obs` invoked at every user callback (Clone / eq / cmp / hash / fmt of a payload):
/// lets an engine observe the library's state *while* a comparison or a clone is in progress.
pub fn with_observer<R>(obs: &dyn Fn(&'static str), f: impl FnOnce() -> R) -> R {
    struct Reset(Option<*const dyn Fn(&'static str)>);
    impl Drop for Reset {
        fn drop(&mut self) {
            OBSERVER.with(|o| o.set(self.0));
        }
    }
    // the pointer is only dereferenced while `obs` is alive (cleared by the guard on exit and unwind)
    let p: *const dyn Fn(&'static str) = unsafe { std::mem::transmute::<&dyn Fn(&'static str), &'static dyn Fn(&'static str)>(obs) };
    let _g = Reset(OBSERVER.with(|o| o.replace(Some(p))));
    f()
}

/// A user callback is being invoked: count it, maybe panic.
pub fn callback_point(what: &'static str) {
    CALLBACKS.with(|c| c.set(c.get() + 1));
    if let Some(p) = OBSERVER.with(|o| o.take()) {
        // not re-entrant: the observer may itself trigger callbacks
        unsafe { (*p)(what) };
        OBSERVER.with(|o| o.set(Some(p)));
    }
    let fire = PANIC_AT.with(|p| {
        let v = p.get();
        if v > 0 {
            p.set(v - 1);
            v == 1
        } else {
            false
        }
    });
    if fire {
        let _ = what;
        std::panic::panic_any(Injected);
    }
}

fn new_id(ty: u32, val: u64, clone_of: u32) -> u32 {
    untracked(|| {
        let mut r = reg();
        let id = r.toks.len() as u32;
        r.toks.push(TokInfo {
            state: State::Live,
            val,
            ty,
            born: crate::alloc::step(),
            died: 0,
            clone_of,
            drops: 0,
        });
        if clone_of != NONE {
            r.clones += 1;
        }
        id
    })
}

/// Alignment markers.
pub trait Al: 'static + Copy + Send + Sync + PartialEq + Eq + std::fmt::Debug + Default + Hash {
    const ALIGN: usize;
}
macro_rules! al {
    ($n:ident, $a:literal) => {
        #[derive(Clone, Copy, PartialEq, Eq, Debug, Default, Hash)]
        #[repr(align($a))]
        pub struct $n;
        impl Al for $n {
            const ALIGN: usize = $a;
        }
    };
}
al!(A1, 1);
al!(A2, 2);
al!(A4, 4);
al!(A8, 8);
al!(A16, 16);
al!(A32, 32);
al!(A64, 64);
al!(A256, 256);
al!(A4096, 4096);

const MAGIC: u32 = 0x70C0_DE00;

/// Identity-tracked payload: 16 bytes of state (id, magic, value) at alignment `A`.
/// `TAG` distinguishes types of equal layout (the magic depends on it, so a
/// destructor or read through the wrong type is seen as a bad magic).
#[repr(C)]
pub struct Tok<A: Al, const TAG: u8> {
    _a: [A; 0],
    id: [u8; 4],
    magic: [u8; 4],
    val: [u8; 8],
}

pub type Tok1 = Tok<A1, 1>;
pub type Tok2 = Tok<A2, 2>;
pub type Tok4 = Tok<A4, 3>;
pub type Tok8 = Tok<A8, 4>;
pub type Tok16 = Tok<A16, 5>;
pub type Tok32 = Tok<A32, 6>;
pub type Tok64 = Tok<A64, 7>;
/// same layout as Tok8, different type (ArcUnion's other side, headers)
pub type Tok8b = Tok<A8, 8>;
pub type Tok1b = Tok<A1, 9>;

#[derive(Clone, Copy, Debug, PartialEq, Eq)]
pub struct Peek {
    pub id: u32,
    pub val: u64,
    pub ok: bool,
}

impl<A: Al, const TAG: u8> Tok<A, TAG> {
    pub const TY: u32 = ((A::ALIGN as u32) << 8) | TAG as u32;
    const MAGIC: u32 = MAGIC | TAG as u32;

    pub fn new(val: u64) -> Self {
        let id = new_id(Self::TY, val, NONE);
        Tok { _a: [], id: id.to_le_bytes(), magic: Self::MAGIC.to_le_bytes(), val: val.to_le_bytes() }
    }

    fn addr(&self) -> usize {
        self as *const Self as usize
    }

    pub fn raw_id(&self) -> u32 {
        u32::from_le_bytes(self.id)
    }

    /// Validating read: magic, registry state, value.
    pub fn peek(&self) -> Peek {
        sim::payload_access(self.addr(), sim::Access::Read);
        self.peek_nosim()
    }

    fn peek_nosim(&self) -> Peek {
        let id = u32::from_le_bytes(self.id);
        let magic = u32::from_le_bytes(self.magic);
        let val = u64::from_le_bytes(self.val);
        if magic != Self::MAGIC {
            viol::report(
                &["C01", "C07", "C15", "C02"],
                "L.read-bad-magic",
                format!(
                    "read of a {} at {:#x} whose magic is {:#x} (uninitialised, freed or wrongly typed memory; bytes id={:#x} val={:#x})",
                    Self::name(),
                    self.addr(),
                    magic,
                    id,
                    val
                ),
            );
            return Peek { id, val, ok: false };
        }
        match info(id) {
            Some(t) if t.state == State::Live && t.ty == Self::TY => {
                if t.val != val {
                    viol::report(
                        &["C01", "C08"],
                        "L.value-corrupt",
                        format!("{} id {} holds value {} but the registry says {}", Self::name(), id, val, t.val),
                    );
                    return Peek { id, val, ok: false };
                }
                Peek { id, val, ok: true }
            }
            Some(t) => {
                viol::report(
                    &["C01", "C02", "C07", "C09"],
                    "L.read-after-drop",
                    format!(
                        "read of {} id {} at {:#x} after its destructor ran (state {:?}, died at step {})",
                        Self::name(),
                        id,
                        self.addr(),
                        t.state,
                        t.died
                    ),
                );
                Peek { id, val, ok: false }
            }
            None => {
                viol::report(
                    &["C01", "C07"],
                    "L.read-unknown-id",
                    format!("read of {} with unknown id {} at {:#x}", Self::name(), id, self.addr()),
                );
                Peek { id, val, ok: false }
            }
        }
    }

    /// Write a new value (through a granted `&mut`).
    pub fn set(&mut self, val: u64) {
        sim::payload_access(self.addr(), sim::Access::Write);
        let p = self.peek_nosim();
        if p.ok {
            untracked(|| {
                if let Some(t) = reg().toks.get_mut(p.id as usize) {
                    t.val = val;
                }
            });
            self.val = val.to_le_bytes();
        }
    }

    pub fn name() -> String {
        format!("Tok<align {}, tag {}>", A::ALIGN, TAG)
    }
}

impl<A: Al, const TAG: u8> Drop for Tok<A, TAG> {
    fn drop(&mut self) {
        sim::payload_access(self.addr(), sim::Access::Drop);
        let id = u32::from_le_bytes(self.id);
        let magic = u32::from_le_bytes(self.magic);
        if magic != Self::MAGIC {
            viol::report(
                &["C01", "C07", "C15", "C12", "C06"],
                "L.drop-bad-magic",
                format!(
                    "destructor of {} ran on a slot at {:#x} whose magic is {:#x} (never written, freed, or another type)",
                    Self::name(),
                    self.addr(),
                    magic
                ),
            );
            return;
        }
        let step = crate::alloc::step();
        let r = untracked(|| {
            let mut r = reg();
            match r.toks.get_mut(id as usize) {
                None => Err(format!("destructor of {} ran on unknown id {}", Self::name(), id)),
                Some(t) => {
                    t.drops += 1;
                    if t.state == State::Dropped {
                        Err(format!(
                            "{} id {} destroyed twice (first at step {}, again at step {})",
                            Self::name(),
                            id,
                            t.died,
                            step
                        ))
                    } else {
                        t.state = State::Dropped;
                        t.died = step;
                        Ok(())
                    }
                }
            }
        });
        if let Err(m) = r {
            viol::report(&["C01", "C06", "C07", "C09", "C02", "C15"], "L.double-drop", m);
        }
        drop_point();
    }
}

impl<A: Al, const TAG: u8> Clone for Tok<A, TAG> {
    fn clone(&self) -> Self {
        callback_point("clone");
        let p = self.peek();
        let id = new_id(Self::TY, p.val, p.id);
        Tok { _a: [], id: id.to_le_bytes(), magic: Self::MAGIC.to_le_bytes(), val: p.val.to_le_bytes() }
    }
}

impl<A: Al, const TAG: u8> PartialEq for Tok<A, TAG> {
    fn eq(&self, o: &Self) -> bool {
        callback_point("eq");
        self.peek().val == o.peek().val
    }
}
impl<A: Al, const TAG: u8> Eq for Tok<A, TAG> {}
impl<A: Al, const TAG: u8> PartialOrd for Tok<A, TAG> {
    fn partial_cmp(&self, o: &Self) -> Option<CmpOrdering> {
        callback_point("partial_cmp");
        self.peek().val.partial_cmp(&o.peek().val)
    }
}
impl<A: Al, const TAG: u8> Ord for Tok<A, TAG> {
    fn cmp(&self, o: &Self) -> CmpOrdering {
        callback_point("cmp");
        self.peek().val.cmp(&o.peek().val)
    }
}
impl<A: Al, const TAG: u8> Hash for Tok<A, TAG> {
    fn hash<H: Hasher>(&self, h: &mut H) {
        callback_point("hash");
        self.peek().val.hash(h)
    }
}
impl<A: Al, const TAG: u8> fmt::Debug for Tok<A, TAG> {
    fn fmt(&self, f: &mut fmt::Formatter<'_>) -> fmt::Result {
        callback_point("fmt");
        write!(f, "T{}", self.peek().val)
    }
}
impl<A: Al, const TAG: u8> Default for Tok<A, TAG> {
    fn default() -> Self {
        callback_point("default");
        Self::new(0)
    }
}

/// A large payload (inline size > 2 KiB): an identity-tracked Tok followed by filler that every read verifies.
/// Witness for code paths keyed on `size_of::<T>()`.
#[repr(C)]
pub struct Big<const N: usize> {
    t: Tok<A8, 10>,
    fill: [u8; N],
}
impl<const N: usize> Big<N> {
    fn fill_ok(&self) -> bool {
        self.fill.iter().step_by(61).all(|b| *b == 0x77) && self.fill[N - 1] == 0x77
    }
}
impl<const N: usize> Clone for Big<N> {
    fn clone(&self) -> Self {
        Big { t: self.t.clone(), fill: self.fill }
    }
}
impl<const N: usize> Default for Big<N> {
    fn default() -> Self {
        Big { t: Default::default(), fill: [0x77; N] }
    }
}
impl<const N: usize> PartialEq for Big<N> {
    fn eq(&self, o: &Self) -> bool {
        self.t == o.t
    }
}
impl<const N: usize> PartialOrd for Big<N> {
    fn partial_cmp(&self, o: &Self) -> Option<CmpOrdering> {
        self.t.partial_cmp(&o.t)
    }
}
impl<const N: usize> Hash for Big<N> {
    fn hash<H: Hasher>(&self, h: &mut H) {
        self.t.hash(h)
    }
}
impl<const N: usize> fmt::Debug for Big<N> {
    fn fmt(&self, f: &mut fmt::Formatter<'_>) -> fmt::Result {
        self.t.fmt(f)
    }
}
impl<const N: usize> Payload for Big<N> {
    fn make(val: u64) -> Self {
        Big { t: Tok::new(val), fill: [0x77; N] }
    }
    fn peekp(&self) -> Peek {
        let mut p = self.t.peek();
        p.ok = p.ok && self.fill_ok();
        p
    }
    fn setp(&mut self, val: u64) {
        self.t.set(val)
    }
    fn tyname() -> String {
        format!("Big<{} bytes> (a Tok plus verified filler)", std::mem::size_of::<Self>())
    }
}

/// Zero-sized counted payload (identity is impossible; made/dropped are counted per tag).
pub struct TokZ<const Z: usize>(PhantomData<()>);

impl<const Z: usize> TokZ<Z> {
    pub fn new() -> Self {
        untracked(|| {
            let mut r = reg();
            r.z_live[Z] += 1;
            r.z_made[Z] += 1;
        });
        TokZ(PhantomData)
    }
}
impl<const Z: usize> Default for TokZ<Z> {
    fn default() -> Self {
        callback_point("default");
        Self::new()
    }
}
impl<const Z: usize> Clone for TokZ<Z> {
    fn clone(&self) -> Self {
        callback_point("clone");
        untracked(|| reg().clones += 1);
        Self::new()
    }
}
impl<const Z: usize> Drop for TokZ<Z> {
    fn drop(&mut self) {
        untracked(|| {
            let mut r = reg();
            r.z_live[Z] -= 1;
            r.z_dropped[Z] += 1;
        });
        drop_point();
    }
}

impl<const Z: usize> PartialEq for TokZ<Z> {
    fn eq(&self, _o: &Self) -> bool {
        callback_point("eq");
        true
    }
}
impl<const Z: usize> Eq for TokZ<Z> {}
impl<const Z: usize> PartialOrd for TokZ<Z> {
    fn partial_cmp(&self, _o: &Self) -> Option<CmpOrdering> {
        callback_point("partial_cmp");
        Some(CmpOrdering::Equal)
    }
}
impl<const Z: usize> Hash for TokZ<Z> {
    fn hash<H: Hasher>(&self, _h: &mut H) {
        callback_point("hash");
    }
}
impl<const Z: usize> fmt::Debug for TokZ<Z> {
    fn fmt(&self, f: &mut fmt::Formatter<'_>) -> fmt::Result {
        callback_point("fmt");
        write!(f, "Z")
    }
}

/// Uniform view of payloads for the engines.
pub trait Payload: Sized + Clone + 'static {
    const ZST: bool = false;
    fn make(val: u64) -> Self;
    fn peekp(&self) -> Peek;
    fn setp(&mut self, val: u64);
    fn tyname() -> String;
    /// number of values of this type alive right now (only known for counted ZSTs)
    fn live_now() -> Option<i64> {
        None
    }
    /// (made, dropped) so far in this case (only known for counted ZSTs)
    fn z_stats() -> Option<(u64, u64)> {
        None
    }
    /// the value can change through a shared reference
    const INTERIOR_MUT: bool = false;
    /// interior mutation through `&self` (only for payloads with INTERIOR_MUT): returns the new value
    fn bump(&self) -> Option<u64> {
        None
    }
}

impl<A: Al, const TAG: u8> Payload for Tok<A, TAG> {
    fn make(val: u64) -> Self {
        Tok::new(val)
    }
    fn peekp(&self) -> Peek {
        self.peek()
    }
    fn setp(&mut self, val: u64) {
        self.set(val)
    }
    fn tyname() -> String {
        Self::name()
    }
}

impl<const Z: usize> Payload for TokZ<Z> {
    const ZST: bool = true;
    fn make(_val: u64) -> Self {
        TokZ::new()
    }
    fn peekp(&self) -> Peek {
        Peek { id: NONE, val: 0, ok: true }
    }
    fn setp(&mut self, _val: u64) {}
    fn tyname() -> String {
        format!("TokZ<{}>", Z)
    }
    fn live_now() -> Option<i64> {
        Some(z_live(Z))
    }
    fn z_stats() -> Option<(u64, u64)> {
        Some((z_made(Z), z_dropped(Z)))
    }
}

/// Object-safe view, for `Arc<dyn Probe>`.
pub trait Probe {
    fn probe(&self) -> Peek;
}
impl<P: Payload> Probe for P {
    fn probe(&self) -> Peek {
        self.peekp()
    }
}

/// A payload WITHOUT drop glue (`mem::needs_drop` is false): reads and writes are still
/// instrumented for the schedule engine, but there is no identity and no destructor.
#[derive(Hash, Debug, Default)]
#[repr(C)]
pub struct Plain<A: Al> {
    _a: [A; 0],
    val: u64,
}
pub type Plain8 = Plain<A8>;
pub type Plain16 = Plain<A16>;

impl<A: Al> PartialEq for Plain<A> {
    fn eq(&self, o: &Self) -> bool {
        callback_point("eq");
        self.val == o.val
    }
}
impl<A: Al> Eq for Plain<A> {}
impl<A: Al> PartialOrd for Plain<A> {
    fn partial_cmp(&self, o: &Self) -> Option<CmpOrdering> {
        callback_point("partial_cmp");
        self.val.partial_cmp(&o.val)
    }
}

impl<A: Al> Clone for Plain<A> {
    fn clone(&self) -> Self {
        callback_point("clone");
        untracked(|| reg().clones += 1);
        Plain { _a: [], val: self.peekp().val }
    }
}

impl<A: Al> Payload for Plain<A> {
    fn make(val: u64) -> Self {
        Plain { _a: [], val }
    }
    fn peekp(&self) -> Peek {
        sim::payload_access(self as *const Self as usize, sim::Access::Read);
        Peek { id: NONE, val: self.val, ok: true }
    }
    fn setp(&mut self, val: u64) {
        sim::payload_access(self as *const Self as usize, sim::Access::Write);
        self.val = val;
    }
    fn tyname() -> String {
        format!("Plain<align {}> (no drop glue)", A::ALIGN)
    }
}

/// A payload without drop glue whose value can be changed through a shared reference (an atomic):
/// lets the schedule engine check that a value moved out by the unwrap family is the *current* one.
#[repr(C)]
pub struct Bump<A: Al> {
    _a: [A; 0],
    val: std::sync::atomic::AtomicU64,
}
pub type Bump8 = Bump<A8>;

impl<A: Al> Bump<A> {
    fn get(&self) -> u64 {
        self.val.load(std::sync::atomic::Ordering::Relaxed)
    }
}
impl<A: Al> Clone for Bump<A> {
    fn clone(&self) -> Self {
        callback_point("clone");
        untracked(|| reg().clones += 1);
        Bump { _a: [], val: std::sync::atomic::AtomicU64::new(self.peekp().val) }
    }
}
impl<A: Al> Default for Bump<A> {
    fn default() -> Self {
        Self::make(0)
    }
}
impl<A: Al> PartialEq for Bump<A> {
    fn eq(&self, o: &Self) -> bool {
        callback_point("eq");
        self.get() == o.get()
    }
}
impl<A: Al> PartialOrd for Bump<A> {
    fn partial_cmp(&self, o: &Self) -> Option<CmpOrdering> {
        callback_point("partial_cmp");
        self.get().partial_cmp(&o.get())
    }
}
impl<A: Al> Hash for Bump<A> {
    fn hash<H: Hasher>(&self, h: &mut H) {
        callback_point("hash");
        self.get().hash(h)
    }
}
impl<A: Al> fmt::Debug for Bump<A> {
    fn fmt(&self, f: &mut fmt::Formatter<'_>) -> fmt::Result {
        callback_point("fmt");
        write!(f, "B{}", self.get())
    }
}
impl<A: Al> Payload for Bump<A> {
    const INTERIOR_MUT: bool = true;
    fn make(val: u64) -> Self {
        Bump { _a: [], val: std::sync::atomic::AtomicU64::new(val) }
    }
    fn peekp(&self) -> Peek {
        sim::payload_access(self as *const Self as usize, sim::Access::Read);
        Peek { id: NONE, val: self.get(), ok: true }
    }
    fn setp(&mut self, val: u64) {
        sim::payload_access(self as *const Self as usize, sim::Access::Write);
        *self.val.get_mut() = val;
    }
    fn bump(&self) -> Option<u64> {
        // an atomic update through `&self`: a scheduling point, ordered like a read by the race oracle
        sim::payload_access(self as *const Self as usize, sim::Access::Read);
        Some(self.val.fetch_add(1, std::sync::atomic::Ordering::Relaxed) + 1)
    }
    fn tyname() -> String {
        format!("Bump<align {}> (atomic value, no drop glue)", A::ALIGN)
    }
}
