//! Child-process runner: outcomes that end the process (abort, allocation failure)
//! are observed from outside.

use std::io::Read;
use std::os::unix::process::ExitStatusExt;
use std::process::{Command, Stdio};
use std::time::{Duration, Instant};

#[derive(Clone, Debug)]
pub struct Outcome {
    pub code: Option<i32>,
    pub signal: Option<i32>,
    pub stdout: String,
    pub stderr: String,
    pub timed_out: bool,
}

pub fn run_self(args: &[String], envs: &[(&str, String)], timeout: Duration) -> Outcome {
    let exe = std::env::current_exe().expect("current_exe");
    run(exe.to_str().unwrap(), args, envs, timeout)
}

pub fn run(exe: &str, args: &[String], envs: &[(&str, String)], timeout: Duration) -> Outcome {
    let mut cmd = Command::new(exe);
    cmd.args(args).stdin(Stdio::null()).stdout(Stdio::piped()).stderr(Stdio::piped());
    cmd.env("RUST_BACKTRACE", "0");
    for (k, v) in envs {
        cmd.env(k, v);
    }
    let mut ch = cmd.spawn().expect("spawn child");
    let mut out = ch.stdout.take().unwrap();
    let mut err = ch.stderr.take().unwrap();
    let th_out = std::thread::spawn(move || {
        let mut s = Vec::new();
        let _ = out.read_to_end(&mut s);
        String::from_utf8_lossy(&s).into_owned()
    });
    let th_err = std::thread::spawn(move || {
        let mut s = Vec::new();
        let _ = err.read_to_end(&mut s);
        String::from_utf8_lossy(&s).into_owned()
    });
    let start = Instant::now();
    let mut timed_out = false;
    let status = loop {
        match ch.try_wait() {
            Ok(Some(st)) => break st,
            Ok(None) => {
                if start.elapsed() > timeout {
                    let _ = ch.kill();
                    timed_out = true;
                    break ch.wait().expect("wait");
                }
                std::thread::sleep(Duration::from_micros(300));
            }
            Err(_) => break ch.wait().expect("wait"),
        }
    };
    Outcome {
        code: status.code(),
        signal: status.signal(),
        stdout: th_out.join().unwrap_or_default(),
        stderr: th_err.join().unwrap_or_default(),
        timed_out,
    }
}
