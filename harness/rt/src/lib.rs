pub mod alloc;
pub mod sim;
pub mod tok;
pub mod viol;
pub mod case;
pub mod evid;
pub mod run;
pub mod child;

#[cfg(not(feature = "system-alloc"))]
#[global_allocator]
static GLOBAL: alloc::Tracker = alloc::Tracker;
