//! Orchestration: plans (engine jobs per property and tier), worker processes running
//! proptest over a job share, the parent that aggregates, confirms crashes, writes
//! evidence and replay files and prints the interface lines.

use std::collections::{BTreeMap, BTreeSet, HashSet};
use std::io::{Seek, SeekFrom, Write};
use std::path::{Path, PathBuf};
use std::time::{Duration, Instant};

use proptest::test_runner::{Config, RngSeed, TestCaseError, TestError, TestRunner};
use serde_json::{json, Value};

use crate::case::{self, ByteCase};
use crate::viol::Violation;

#[derive(Clone, Copy, Debug, PartialEq, Eq)]
pub enum Tier {
    Quick,
    Thorough,
}
impl Tier {
    pub fn name(&self) -> &'static str {
        match self {
            Tier::Quick => "quick",
            Tier::Thorough => "thorough",
        }
    }
    pub fn parse(s: &str) -> Option<Tier> {
        match s {
            "quick" => Some(Tier::Quick),
            "thorough" => Some(Tier::Thorough),
            _ => None,
        }
    }
}

#[derive(Default)]
pub struct CaseReport {
    pub viols: Vec<Violation>,
    pub nontrivial: bool,
    pub labels: Vec<&'static str>,
    pub trace: Vec<String>,
}

pub trait Engine: Send + Sync {
    fn name(&self) -> String;
    fn params_len(&self) -> usize;
    /// (min, max) number of 4-byte records
    fn ops_range(&self) -> (usize, usize);
    fn run(&self, case: &ByteCase, trace: bool) -> CaseReport;
    /// A finite domain enumerated completely instead of sampled: number of grid points ...
    fn enum_len(&self) -> Option<u64> {
        None
    }
    /// ... and the case at a grid point (None = the point is not part of the domain).
    fn enum_at(&self, _i: u64) -> Option<ByteCase> {
        None
    }
}

pub struct Job {
    pub engine: Box<dyn Engine>,
    pub cases: u64,
    pub flavour: &'static str,
}

pub struct Plan {
    pub property: String,
    pub level: &'static str,
    pub rule: String,
    pub assumptions: Vec<String>,
    pub jobs: Vec<Job>,
}

pub fn verif_root() -> PathBuf {
    if let Ok(p) = std::env::var("VERIF_ROOT") {
        return PathBuf::from(p);
    }
    PathBuf::from("/verif")
}

/// for fuzz targets: expected panics (injected faults, library refusals) stay quiet
pub fn silence_panics_except_violation() {
    std::panic::set_hook(Box::new(|_| {}));
}

pub fn silence_panics() {
    std::panic::set_hook(Box::new(|_| {}));
}

fn relevant(v: &Violation, prop: &str) -> bool {
    v.props.iter().any(|p| *p == prop)
}

pub fn load_known(prop: &str) -> Vec<String> {
    let p = verif_root().join("KNOWN_FINDINGS.txt");
    let Ok(txt) = std::fs::read_to_string(p) else { return vec![] };
    let mut out = vec![];
    for l in txt.lines() {
        let l = l.trim();
        if let Some(rest) = l.strip_prefix("known:") {
            let mut property = None;
            let mut sig = None;
            for w in rest.split_whitespace() {
                if let Some(x) = w.strip_prefix("property=") {
                    property = Some(x.to_string());
                }
                if let Some(x) = w.strip_prefix("sig=") {
                    sig = Some(x.to_string());
                }
            }
            if let (Some(pr), Some(sg)) = (property, sig) {
                if pr == prop {
                    out.push(format!("{}:{}", pr, sg));
                }
            }
        }
    }
    out
}

// ---------------------------------------------------------------------------------
// worker
// ---------------------------------------------------------------------------------

struct JobAcc {
    evals: u64,
    nontrivial: HashSet<u64>,
    labels: BTreeMap<&'static str, u64>,
    samples: Vec<Value>,
    other_clause: u64,
    failed: bool,
}

pub struct WorkerArgs {
    pub property: String,
    pub tier: Tier,
    pub seed: u64,
    pub index: u64,
    pub nworkers: u64,
    pub out: PathBuf,
    pub flavour: String,
}

fn splitmix(mut x: u64) -> u64 {
    x = x.wrapping_add(0x9E3779B97F4A7C15);
    let mut z = x;
    z = (z ^ (z >> 30)).wrapping_mul(0xBF58476D1CE4E5B9);
    z = (z ^ (z >> 27)).wrapping_mul(0x94D049BB133111EB);
    z ^ (z >> 31)
}

pub fn worker(plan: &Plan, a: &WorkerArgs) -> i32 {
    silence_panics();
    crate::viol::set_known(load_known(&a.property));
    let cur_path = a.out.with_extension("cur");
    let mut cur = std::fs::OpenOptions::new().create(true).write(true).truncate(true).open(&cur_path).expect("cur file");
    let mut jobs_out = vec![];
    let mut viols_out = vec![];
    for (ji, job) in plan.jobs.iter().enumerate() {
        if job.flavour != a.flavour {
            continue;
        }
        let eng = &job.engine;
        let mut acc = JobAcc {
            evals: 0,
            nontrivial: HashSet::new(),
            labels: BTreeMap::new(),
            samples: vec![],
            other_clause: 0,
            failed: false,
        };
        let prop = a.property.clone();
        let run_one = |c: &ByteCase, acc: &mut JobAcc, cur: &mut std::fs::File| -> Result<(), String> {
            let line = format!("{}\n{}\n", ji, c.to_hex());
            let _ = cur.seek(SeekFrom::Start(0));
            let _ = cur.write_all(line.as_bytes());
            let _ = cur.set_len(line.len() as u64);
            let rep = eng.run(c, false);
            let rel: Vec<&Violation> = rep.viols.iter().filter(|v| relevant(v, &prop)).collect();
            if !acc.failed {
                acc.evals += 1;
                acc.other_clause += (rep.viols.len() - rel.len()) as u64;
                if rep.viols.len() > rel.len() && std::env::var("TV_DEBUG_OTHER").is_ok() {
                    for v in rep.viols.iter().filter(|v| !relevant(v, &prop)).take(2) {
                        eprintln!("OTHER [{}] {:?} {} :: {}", v.sig, v.props, eng.name(), v.msg);
                    }
                }
                for l in &rep.labels {
                    *acc.labels.entry(l).or_insert(0) += 1;
                }
                if rep.nontrivial {
                    let h = c.hash64();
                    if acc.nontrivial.insert(h) && acc.samples.len() < 2 && a.index == 0 {
                        let tr = eng.run(c, true);
                        acc.samples.push(json!({"engine": eng.name(), "case": c.to_hex(), "trace": tr.trace}));
                    }
                }
            }
            if let Some(v) = rel.first() {
                acc.failed = true;
                return Err(v.sig.clone());
            }
            Ok(())
        };
        let mut failure: Option<ByteCase> = None;
        if let Some(n) = eng.enum_len() {
            // exhaustive domain, split among workers
            let mut i = a.index;
            while i < n {
                if let Some(c) = eng.enum_at(i) {
                    if run_one(&c, &mut acc, &mut cur).is_err() {
                        failure = Some(c.clone());
                        break;
                    }
                }
                i += a.nworkers;
            }
        } else {
            let share = job.cases / a.nworkers + if a.index < job.cases % a.nworkers { 1 } else { 0 };
            if share > 0 {
                let mut cfg = Config::default();
                cfg.cases = share as u32;
                cfg.failure_persistence = None;
                cfg.max_shrink_iters = 20_000;
                cfg.max_shrink_time = 0;
                cfg.verbose = 0;
                cfg.rng_seed = RngSeed::Fixed(splitmix(a.seed.wrapping_mul(1000).wrapping_add(a.index) ^ splitmix(ji as u64 + 77)));
                let mut runner = TestRunner::new(cfg);
                let (lo, hi) = eng.ops_range();
                let strat = case::strategy(eng.params_len(), lo, hi);
                let cell = std::cell::RefCell::new((&mut acc, &mut cur));
                let res = runner.run(&strat, |c| {
                    let mut g = cell.borrow_mut();
                    let (acc, cur) = &mut *g;
                    match run_one(&c, acc, cur) {
                        Ok(()) => Ok(()),
                        Err(sig) => Err(TestCaseError::fail(sig)),
                    }
                });
                match res {
                    Ok(()) => {}
                    Err(TestError::Fail(_, minimal)) => failure = Some(minimal),
                    Err(TestError::Abort(r)) => {
                        eprintln!("proptest aborted: {}", r);
                        return 2;
                    }
                }
            }
        }
        if let Some(c) = failure {
            let rep = eng.run(&c, true);
            let rel: Vec<&Violation> = rep.viols.iter().filter(|v| relevant(v, &a.property)).collect();
            viols_out.push(json!({
                "job": ji,
                "engine": eng.name(),
                "flavour": job.flavour,
                "case": c.to_hex(),
                "sig": rel.first().map(|v| v.sig.clone()).unwrap_or_default(),
                "clause": rel.first().map(|v| v.clause).unwrap_or(""),
                "msgs": rel.iter().map(|v| format!("[{}] step {}: {}", v.sig, v.step, v.msg)).collect::<Vec<_>>(),
                "trace": rep.trace,
            }));
        }
        jobs_out.push(json!({
            "job": ji,
            "engine": eng.name(),
            "flavour": job.flavour,
            "evals": acc.evals,
            // the hashes themselves only while the list is small; otherwise the per-worker distinct count
            "nontrivial": if acc.nontrivial.len() <= 200_000 { acc.nontrivial.iter().copied().collect::<Vec<u64>>() } else { vec![] },
            "nontrivial_count": acc.nontrivial.len(),
            "labels": acc.labels,
            "samples": acc.samples,
            "other_clause": acc.other_clause,
        }));
    }
    let known: BTreeMap<String, Value> =
        crate::viol::known_hits().into_iter().map(|(k, (n, m))| (k, json!({"n": n, "example": m}))).collect();
    let out = json!({"jobs": jobs_out, "violations": viols_out, "known_hits": known});
    std::fs::write(&a.out, serde_json::to_vec(&out).unwrap()).expect("write worker result");
    let _ = std::fs::remove_file(&cur_path);
    0
}

// ---------------------------------------------------------------------------------
// replay
// ---------------------------------------------------------------------------------

pub struct ReplayFile {
    pub property: String,
    pub tier: Tier,
    pub flavour: String,
    pub engine: String,
    pub case: ByteCase,
}

pub fn parse_replay(path: &Path) -> Option<ReplayFile> {
    let txt = std::fs::read_to_string(path).ok()?;
    let mut m = BTreeMap::new();
    for l in txt.lines() {
        if l.starts_with('#') {
            break;
        }
        if let Some((k, v)) = l.split_once('=') {
            m.insert(k.trim().to_string(), v.trim().to_string());
        }
    }
    Some(ReplayFile {
        property: m.get("property")?.clone(),
        tier: Tier::parse(m.get("tier").map(|s| s.as_str()).unwrap_or("quick"))?,
        flavour: m.get("flavour").cloned().unwrap_or_else(|| "all".into()),
        engine: m.get("engine")?.clone(),
        case: ByteCase::from_hex(m.get("case")?)?,
    })
}

/// Run one case strictly; prints the trace; returns 1 if a violation relevant to the property shows.
pub fn replay_case(plan: &Plan, engine: &str, c: &ByteCase, quiet: bool) -> i32 {
    silence_panics();
    crate::viol::set_known(load_known(&plan.property));
    let Some(job) = plan.jobs.iter().find(|j| j.engine.name() == engine) else {
        eprintln!("no engine named {} in the plan of {}", engine, plan.property);
        return 2;
    };
    let rep = job.engine.run(c, true);
    if !quiet {
        for l in &rep.trace {
            println!("{}", l);
        }
    }
    let rel: Vec<&Violation> = rep.viols.iter().filter(|v| relevant(v, &plan.property)).collect();
    for v in &rel {
        println!("FAILED-CLAUSE [{}] step {}: {}", v.sig, v.step, v.msg);
    }
    if rel.is_empty() {
        if !quiet {
            println!("replay: no violation of {}", plan.property);
        }
        0
    } else {
        1
    }
}

// ---------------------------------------------------------------------------------
// parent
// ---------------------------------------------------------------------------------

pub struct ParentArgs {
    pub property: String,
    pub tier: Tier,
    pub seed: u64,
    pub nworkers: u64,
    /// flavour -> binary path
    pub bins: BTreeMap<String, String>,
    pub this_flavour: String,
    pub watchdog: Duration,
}

/// With TV_TRACE_STREAM=1 every engine trace line is also written to stderr as it is produced, so that
/// the steps leading up to a crash (which takes the in-memory trace with it) can be recovered.
pub fn trace_stream(line: &str) {
    use std::sync::OnceLock;
    static ON: OnceLock<bool> = OnceLock::new();
    if *ON.get_or_init(|| std::env::var_os("TV_TRACE_STREAM").is_some()) {
        crate::alloc::untracked(|| eprintln!("T| {}", line));
    }
}

/// Delta-debugging of a crashing case: the oracle is "a fresh child process replaying the case dies
/// the same way" (same signal, or same non-zero exit code). Removes blocks of op records (ddmin),
/// then lowers bytes towards 0 (the most benign decoding). Bounded by attempts and wall clock.
fn shrink_crash(bin: &str, dir: &Path, prop: &str, tier: Tier, flavour: &str, engine: &str, case: &ByteCase, want: (Option<i32>, Option<i32>), per_attempt: Duration, budget: Duration) -> (ByteCase, u32) {
    let start = Instant::now();
    let mut attempts = 0u32;
    let mut best = case.clone();
    let scratch = dir.join(format!("shrink-{}-{}.case", prop, std::process::id()));
    let mut still = |c: &ByteCase, attempts: &mut u32| -> bool {
        if *attempts >= 600 || start.elapsed() > budget {
            return false;
        }
        *attempts += 1;
        let txt = format!("property={}\ntier={}\nflavour={}\nengine={}\ncase={}\nsig=crash\n", prop, tier.name(), flavour, engine, c.to_hex());
        if std::fs::write(&scratch, txt).is_err() {
            return false;
        }
        let o = crate::child::run(bin, &["replay".into(), scratch.to_string_lossy().into_owned(), "--quiet".into()], &[], per_attempt);
        !o.timed_out && (o.signal, o.code) == want
    };
    // 1. ddmin over op records
    let mut chunk = (best.ops.len() + 1) / 2;
    while chunk >= 1 && !best.ops.is_empty() {
        let mut i = 0;
        let mut removed_any = false;
        while i < best.ops.len() {
            let mut c = best.clone();
            let end = (i + chunk).min(c.ops.len());
            c.ops.drain(i..end);
            if still(&c, &mut attempts) {
                best = c;
                removed_any = true;
            } else {
                i += chunk;
            }
        }
        if chunk == 1 && !removed_any {
            break;
        }
        chunk = if chunk == 1 { if removed_any { 1 } else { 0 } } else { (chunk + 1) / 2 };
        if chunk == 0 {
            break;
        }
    }
    // 2. bytes towards zero: whole params block, then single bytes of params and ops
    {
        let mut c = best.clone();
        for b in c.params.iter_mut() {
            *b = 0;
        }
        if c != best && still(&c, &mut attempts) {
            best = c;
        }
    }
    for i in 0..best.params.len() {
        if best.params[i] != 0 {
            let mut c = best.clone();
            c.params[i] = 0;
            if still(&c, &mut attempts) {
                best = c;
            }
        }
    }
    for i in 0..best.ops.len() {
        for k in 1..4 {
            if best.ops[i][k] != 0 {
                let mut c = best.clone();
                c.ops[i][k] = 0;
                if still(&c, &mut attempts) {
                    best = c;
                }
            }
        }
    }
    let _ = std::fs::remove_file(&scratch);
    (best, attempts)
}

fn write_replay(prop: &str, tier: Tier, flavour: &str, engine: &str, case_hex: &str, sig: &str, msgs: &[String], trace: &[String]) -> PathBuf {
    let dir = verif_root().join("replays");
    let _ = std::fs::create_dir_all(&dir);
    let h = {
        use std::hash::{Hash, Hasher};
        let mut h = std::collections::hash_map::DefaultHasher::new();
        (prop, engine, case_hex).hash(&mut h);
        h.finish()
    };
    let path = dir.join(format!("{}-{:012x}.case", prop, h & 0xffff_ffff_ffff));
    let mut s = String::new();
    s.push_str(&format!("property={}\ntier={}\nflavour={}\nengine={}\ncase={}\nsig={}\n", prop, tier.name(), flavour, engine, case_hex, sig));
    s.push_str("# failing oracle clauses\n");
    for m in msgs {
        s.push_str(&format!("# {}\n", m));
    }
    s.push_str("# trace\n");
    for t in trace {
        s.push_str(&format!("# {}\n", t));
    }
    let _ = std::fs::write(&path, s);
    path
}

/// Replays every saved regression input of the property; returns violations found.
fn regress_tier(a: &ParentArgs) -> (u64, Vec<(PathBuf, String)>) {
    let dir = verif_root().join("regress").join(&a.property);
    let mut n = 0;
    let mut bad = vec![];
    let Ok(rd) = std::fs::read_dir(&dir) else { return (0, bad) };
    let mut files: Vec<PathBuf> = rd.filter_map(|e| e.ok()).map(|e| e.path()).filter(|p| p.extension().map(|x| x == "case").unwrap_or(false)).collect();
    files.sort();
    for f in files {
        let Some(rf) = parse_replay(&f) else { continue };
        let Some(bin) = a.bins.get(&rf.flavour) else { continue };
        n += 1;
        let o = crate::child::run(
            bin,
            &["replay".into(), f.to_string_lossy().into_owned(), "--quiet".into()],
            &[],
            Duration::from_secs(120),
        );
        if o.timed_out {
            continue;
        }
        if o.code != Some(0) {
            let why = o.stdout.lines().filter(|l| l.starts_with("FAILED-CLAUSE")).next().unwrap_or("crashed").to_string();
            bad.push((f, why));
        }
    }
    (n, bad)
}

pub fn parent(plan: &Plan, a: &ParentArgs) -> i32 {
    let start = Instant::now();
    let tmp = std::env::temp_dir().join(format!("tv-{}-{}-{}", a.property, a.tier.name(), std::process::id()));
    let _ = std::fs::remove_dir_all(&tmp);
    std::fs::create_dir_all(&tmp).expect("tmp dir");
    let known_list = load_known(&a.property);
    // replays/ holds the findings of the latest run of each property only
    if let Ok(rd) = std::fs::read_dir(verif_root().join("replays")) {
        for e in rd.flatten() {
            if e.file_name().to_string_lossy().starts_with(&format!("{}-", a.property)) {
                let _ = std::fs::remove_file(e.path());
            }
        }
    }

    let mut violation_lines: Vec<String> = vec![];
    let mut seen_crash: BTreeSet<String> = BTreeSet::new();
    let mut more_crashes = 0u64;
    // wall-clock budget for delta debugging of crash inputs, over the whole run
    let shrink_budget = Duration::from_secs(90);
    let mut shrink_spent = Duration::ZERO;
    let mut n_viol = 0i64;
    let mut inconclusive: Vec<String> = vec![];

    // 1. regress tier
    let (n_regress, bad) = regress_tier(a);
    for (f, why) in bad {
        n_viol += 1;
        println!("regression input reproduces: {} ({})", f.display(), why);
        violation_lines.push(format!("VIOLATION property={} replay={}", a.property, f.display()));
    }

    // 2. workers per flavour
    let mut flavours: Vec<&'static str> = vec![];
    for j in &plan.jobs {
        if !flavours.contains(&j.flavour) {
            flavours.push(j.flavour);
        }
    }
    let mut results: Vec<Value> = vec![];
    for fl in &flavours {
        let Some(bin) = a.bins.get(*fl) else {
            inconclusive.push(format!("no binary for flavour {}", fl));
            continue;
        };
        let mut children = vec![];
        for i in 0..a.nworkers {
            let out = tmp.join(format!("w-{}-{}.json", fl, i));
            let ch = std::process::Command::new(bin)
                .args([
                    "worker",
                    "--property",
                    &a.property,
                    "--tier",
                    a.tier.name(),
                    "--seed",
                    &a.seed.to_string(),
                    "--index",
                    &i.to_string(),
                    "--nworkers",
                    &a.nworkers.to_string(),
                    "--out",
                    out.to_str().unwrap(),
                ])
                .env("RUST_BACKTRACE", "0")
                .stdin(std::process::Stdio::null())
                // a sanitizer flavour writes its report when it ends a worker; the parent reproduces the case in a
                // fresh process and quotes the report from there
                .stderr(if *fl == "tsan" { std::process::Stdio::null() } else { std::process::Stdio::inherit() })
                .spawn()
                .expect("spawn worker");
            children.push((i, out, ch));
        }
        for (i, out, mut ch) in children {
            let _ = &mut more_crashes;
            let status = loop {
                match ch.try_wait() {
                    Ok(Some(s)) => break Some(s),
                    Ok(None) => {
                        if start.elapsed() > a.watchdog {
                            let _ = ch.kill();
                            let _ = ch.wait();
                            break None;
                        }
                        std::thread::sleep(Duration::from_millis(5));
                    }
                    Err(_) => break None,
                }
            };
            match status {
                None => inconclusive.push(format!("worker {} ({}) exceeded the watchdog", i, fl)),
                Some(s) if s.success() => match std::fs::read(&out).ok().and_then(|b| serde_json::from_slice::<Value>(&b).ok()) {
                    Some(v) => results.push(v),
                    None => inconclusive.push(format!("worker {} ({}) wrote no result", i, fl)),
                },
                Some(s) => {
                    // died: confirm the case it was running in a fresh child
                    let cur = out.with_extension("cur");
                    let txt = std::fs::read_to_string(&cur).unwrap_or_default();
                    let mut it = txt.lines();
                    let ji: Option<usize> = it.next().and_then(|x| x.parse().ok());
                    let hexc = it.next().unwrap_or("").to_string();
                    match (ji, ByteCase::from_hex(&hexc)) {
                        (Some(ji), Some(_c)) if ji < plan.jobs.len() => {
                            let engine = plan.jobs[ji].engine.name();
                            let path = write_replay(
                                &a.property,
                                a.tier,
                                fl,
                                &engine,
                                &hexc,
                                "crash",
                                &[format!("worker terminated abnormally ({:?}) while running this case", s)],
                                &[],
                            );
                            let t_replay = Instant::now();
                            let o = crate::child::run(
                                bin,
                                &["replay".into(), path.to_string_lossy().into_owned(), "--quiet".into()],
                                &[],
                                Duration::from_secs(120),
                            );
                            let per_attempt = t_replay.elapsed() * 4 + Duration::from_millis(1500);
                            if o.code == Some(0) || o.timed_out {
                                inconclusive.push(format!("worker {} ({}) died with {:?}; the case did not reproduce in a fresh process", i, fl, s));
                                let _ = std::fs::remove_file(&path);
                            } else {
                                // one report per (flavour, engine, termination): every worker of a job usually dies of the same cause
                                if !seen_crash.insert(format!("{}|{}|{:?}|{:?}", fl, engine, o.signal, o.code)) {
                                    more_crashes += 1;
                                    let _ = std::fs::remove_file(&path);
                                    continue;
                                }
                                n_viol += 1;
                                println!("crash confirmed in a fresh process: {:?} / replay exit {:?} signal {:?}", s, o.code, o.signal);
                                for l in o.stdout.lines().filter(|l| l.starts_with("FAILED-CLAUSE")) {
                                    println!("  {}", l);
                                }
                                // shrink (delta debugging against "dies the same way in a fresh process"), then
                                // recover the steps before the crash from a streamed trace
                                let (small, attempts) = shrink_crash(bin, &tmp, &a.property, a.tier, fl, &engine, &_c, (o.signal, o.code), per_attempt, shrink_budget.saturating_sub(shrink_spent));
                                shrink_spent += t_replay.elapsed();
                                let _ = std::fs::remove_file(&path);
                                let tmp_path = write_replay(&a.property, a.tier, fl, &engine, &small.to_hex(), "crash", &[], &[]);
                                let t = crate::child::run(
                                    bin,
                                    &["replay".into(), tmp_path.to_string_lossy().into_owned(), "--quiet".into()],
                                    &[("TV_TRACE_STREAM", "1".to_string())],
                                    Duration::from_secs(120),
                                );
                                let trace: Vec<String> = t.stderr.lines().filter_map(|l| l.strip_prefix("T| ").map(|x| x.to_string())).collect();
                                let last_err: Vec<String> = t.stderr.lines().filter(|l| !l.starts_with("T| ")).rev().take(3).map(|x| x.to_string()).collect();
                                let mut msgs = vec![
                                    format!("worker terminated abnormally ({:?}) while running the original case; a fresh process replaying it ends with exit {:?} signal {:?}", s, o.code, o.signal),
                                    format!("shrunk from {} to {} op records in {} replay attempts (delta debugging, oracle: same termination)", _c.ops.len(), small.ops.len(), attempts),
                                ];
                                for l in last_err.into_iter().rev() {
                                    if !l.trim().is_empty() && !l.starts_with("=====") {
                                        msgs.push(format!("stderr: {}", l));
                                    }
                                }
                                // sanitizer reports: the frames inside the library
                                let mut seen_frames: Vec<String> = vec![];
                                for l in t.stderr.lines().filter(|l| l.contains("triomphe::") || l.trim_start().starts_with("Write of size") || l.trim_start().starts_with("Read of size") || l.trim_start().starts_with("Previous ") || l.trim_start().starts_with("Atomic ")) {
                                    let l = l.trim().split(" (tv").next().unwrap_or("").to_string();
                                    if !seen_frames.contains(&l) && seen_frames.len() < 10 {
                                        msgs.push(format!("report: {}", l));
                                        seen_frames.push(l);
                                    }
                                }
                                let path = write_replay(&a.property, a.tier, fl, &engine, &small.to_hex(), "crash", &msgs, &trace);
                                if path != tmp_path {
                                    let _ = std::fs::remove_file(&tmp_path);
                                }
                                println!("  shrunk to {} op records ({} attempts); last steps before the crash:", small.ops.len(), attempts);
                                for l in trace.iter().rev().take(4).collect::<Vec<_>>().into_iter().rev() {
                                    println!("    {}", l);
                                }
                                violation_lines.push(format!("VIOLATION property={} replay={}", a.property, path.display()));
                            }
                        }
                        _ => inconclusive.push(format!("worker {} ({}) died with {:?} outside a case", i, fl, s)),
                    }
                }
            }
        }
    }

    // 3. aggregate
    let mut evals = 0u64;
    let mut nontrivial: BTreeSet<(u64, u64)> = BTreeSet::new();
    let mut labels: BTreeMap<String, u64> = BTreeMap::new();
    let mut samples: Vec<Value> = vec![];
    let mut other_clause = 0u64;
    let mut per_engine: BTreeMap<u64, (String, String, u64, BTreeSet<u64>)> = BTreeMap::new();
    // distinct counts of workers whose hash lists were too long to ship (distinct within the worker;
    // workers run different seeds)
    let mut counted_only: BTreeMap<u64, u64> = BTreeMap::new();
    let mut known_hits: BTreeMap<String, (u64, String)> = BTreeMap::new();
    let mut seen_viol: BTreeSet<String> = BTreeSet::new();
    for r in &results {
        for j in r["jobs"].as_array().cloned().unwrap_or_default() {
            let ji = j["job"].as_u64().unwrap_or(0);
            let e = j["evals"].as_u64().unwrap_or(0);
            evals += e;
            other_clause += j["other_clause"].as_u64().unwrap_or(0);
            let pe = per_engine.entry(ji).or_insert_with(|| {
                (j["engine"].as_str().unwrap_or("").to_string(), j["flavour"].as_str().unwrap_or("").to_string(), 0, BTreeSet::new())
            });
            pe.2 += e;
            let list = j["nontrivial"].as_array().cloned().unwrap_or_default();
            let cnt = j["nontrivial_count"].as_u64().unwrap_or(list.len() as u64);
            if list.is_empty() && cnt > 0 {
                *counted_only.entry(ji).or_insert(0) += cnt;
            }
            for h in list {
                if let Some(h) = h.as_u64() {
                    nontrivial.insert((ji, h));
                    pe.3.insert(h);
                }
            }
            if let Some(o) = j["labels"].as_object() {
                for (k, v) in o {
                    *labels.entry(k.clone()).or_insert(0) += v.as_u64().unwrap_or(0);
                }
            }
            for s in j["samples"].as_array().cloned().unwrap_or_default() {
                if samples.len() < 8 {
                    samples.push(s);
                }
            }
        }
        if let Some(o) = r["known_hits"].as_object() {
            for (k, v) in o {
                let e = known_hits.entry(k.clone()).or_insert((0, v["example"].as_str().unwrap_or("").to_string()));
                e.0 += v["n"].as_u64().unwrap_or(0);
            }
        }
        for v in r["violations"].as_array().cloned().unwrap_or_default() {
            let sig = v["sig"].as_str().unwrap_or("").to_string();
            let engine = v["engine"].as_str().unwrap_or("").to_string();
            let key = format!("{}|{}", engine, sig);
            if !seen_viol.insert(key) {
                continue;
            }
            n_viol += 1;
            let msgs: Vec<String> = v["msgs"].as_array().map(|a| a.iter().filter_map(|x| x.as_str().map(|s| s.to_string())).collect()).unwrap_or_default();
            let trace: Vec<String> = v["trace"].as_array().map(|a| a.iter().filter_map(|x| x.as_str().map(|s| s.to_string())).collect()).unwrap_or_default();
            let path = write_replay(&a.property, a.tier, v["flavour"].as_str().unwrap_or("all"), &engine, v["case"].as_str().unwrap_or(""), &sig, &msgs, &trace);
            println!("violation of {} in engine {} (minimal case after shrinking):", a.property, engine);
            for m in msgs.iter().take(4) {
                println!("  {}", m);
            }
            violation_lines.push(format!("VIOLATION property={} replay={}", a.property, path.display()));
        }
    }
    if more_crashes > 0 {
        println!("({} further workers died the same way as a reported crash)", more_crashes);
    }
    if samples.is_empty() {
        samples.push(json!({"note": "no non-trivial case in this run"}));
    }
    for (k, (n, ex)) in &known_hits {
        let sig = k.splitn(2, ':').nth(1).unwrap_or(k);
        println!("KNOWN-FINDING: property={} sig={} hits={} e.g. {}", a.property, sig, n, ex);
    }
    let _ = known_list;
    if other_clause > 0 {
        eprintln!("note: {} oracle failures belonging to other properties were seen (see their own checks)", other_clause);
    }
    let wall = start.elapsed().as_secs_f64();
    let engines: Vec<Value> = per_engine
        .iter()
        .map(|(ji, (name, fl, e, nt))| json!({"job": ji, "engine": name, "flavour": fl, "evaluations": e, "distinct_nontrivial": nt.len() as u64 + counted_only.get(ji).copied().unwrap_or(0)}))
        .collect();
    let exhaustive = plan.jobs.iter().all(|j| j.engine.enum_len().is_some());
    let ev = json!({
        "property_id": a.property,
        "tier": a.tier.name(),
        "seed": a.seed,
        "level": plan.level,
        "coverage": {
            "evaluations": evals,
            "distinct_nontrivial": nontrivial.len() as u64 + counted_only.values().sum::<u64>(),
            "rule": plan.rule,
            "samples": samples,
            "class_histogram": labels,
            "per_engine": engines,
            "regression_inputs_replayed": n_regress,
            "excluded_known": known_hits.iter().map(|(k, (n, _))| (k.clone(), *n)).collect::<BTreeMap<String, u64>>(),
            "other_clause_failures": other_clause,
            "exhaustive": exhaustive,
            "workers": a.nworkers,
            "inconclusive": inconclusive,
        },
        "assumptions": plan.assumptions,
        "wall_s": wall,
        "violations": n_viol,
    });
    let evdir = verif_root().join("evidence");
    let _ = std::fs::create_dir_all(&evdir);
    std::fs::write(evdir.join(format!("{}.json", a.property)), serde_json::to_string_pretty(&ev).unwrap()).expect("write evidence");
    let _ = std::fs::remove_dir_all(&tmp);

    for l in &violation_lines {
        println!("{}", l);
    }
    println!(
        "{} {}: evaluations={} distinct_nontrivial={} violations={} wall={:.1}s",
        a.property,
        a.tier.name(),
        evals,
        nontrivial.len() as u64 + counted_only.values().sum::<u64>(),
        n_viol,
        wall
    );
    if n_viol > 0 {
        return 1;
    }
    if !inconclusive.is_empty() {
        for i in &inconclusive {
            eprintln!("INCONCLUSIVE: {}", i);
        }
        return 2;
    }
    0
}
