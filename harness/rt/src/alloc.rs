//! Tracking global allocator.
//!
//! Every allocation made by a thread while its `TRACK` flag is on (the harness
//! switches it on only around library calls, see [`track`]) is recorded with its
//! requested (ptr, size, align). A tracked block is verified at `dealloc`
//! (liveness, layout equality, red zones), poisoned and *quarantined* until the
//! case ends, so that a use-after-free reads a recognisable pattern and an
//! address is never reused inside a case.
//!
//! With the `asan` feature the quarantine/poison/red zones are off (ASan does
//! that job) but the bookkeeping stays.

use std::alloc::{GlobalAlloc, Layout, System};
use std::cell::Cell;
use std::sync::atomic::{AtomicBool, AtomicU32, AtomicUsize, Ordering};

use crate::viol;

pub const FRESH: u8 = 0x65;
pub const FREED: u8 = 0x5A;
const CANARY: u8 = 0xCB;
/// requests above this are refused (null), so overflow-adjacent sizes fail fast
pub const MAX_REQ: usize = 1 << 36;

pub struct Tracker;

thread_local! {
    static BYPASS: Cell<u32> = const { Cell::new(0) };
    /// set while the allocator's own tables are being manipulated: everything goes straight to System
    static IN_ALLOC: Cell<u32> = const { Cell::new(0) };
    static TRACK: Cell<bool> = const { Cell::new(false) };
    /// counts down on each tracked allocation; the allocation that moves it to 0 fails
    static FAIL_AT: Cell<i64> = const { Cell::new(-1) };
    static TRACKED_ALLOCS: Cell<u64> = const { Cell::new(0) };
}

pub static STEP: AtomicU32 = AtomicU32::new(0);

#[derive(Clone, Copy, Debug, PartialEq, Eq)]
pub struct Block {
    pub ptr: usize,
    pub size: usize,
    pub align: usize,
    base: usize,
    real_size: usize,
    real_align: usize,
    pub live: bool,
    pub born: u32,
    pub died: u32,
    /// sequential id inside the case
    pub seq: u32,
    /// survived the end of the case it was allocated in (harness memory allocated under tracking,
    /// or a leak already reported): still verified when freed, invisible to the current case
    pub stale: bool,
}

impl Block {
    pub fn none() -> Block {
        Block { ptr: 0, size: 0, align: 1, base: 0, real_size: 0, real_align: 1, live: false, born: 0, died: 0, seq: u32::MAX, stale: true }
    }
}

#[derive(Clone, Copy, Debug, PartialEq, Eq)]
pub enum Event {
    Alloc(u32),
    Free(u32),
}

struct Table {
    blocks: Vec<Block>,
    events: Vec<Event>,
    next_seq: u32,
    /// blocks that outlived their case (leaked by the code under test, or long-lived harness memory allocated
    /// under tracking): looked up by address when they are freed later, never scanned (a long run that tolerates
    /// leaks would otherwise slow down quadratically)
    stale: std::collections::BTreeMap<usize, Block>,
}

struct Spin<T> {
    lock: AtomicBool,
    v: std::cell::UnsafeCell<T>,
}
unsafe impl<T> Sync for Spin<T> {}
impl<T> Spin<T> {
    const fn new(v: T) -> Self {
        Spin { lock: AtomicBool::new(false), v: std::cell::UnsafeCell::new(v) }
    }
    fn with<R>(&self, f: impl FnOnce(&mut T) -> R) -> R {
        let mut spins: u64 = 0;
        while self
            .lock
            .compare_exchange_weak(false, true, Ordering::Acquire, Ordering::Relaxed)
            .is_err()
        {
            std::hint::spin_loop();
            spins += 1;
            if spins == 1 << 33 {
                // minutes of spinning: the lock was left held (re-entrancy or an unwind through the critical section).
                // A hang would be reported as a watchdog timeout much later; say what it is and end the process.
                let _ = std::io::Write::write_all(&mut std::io::stderr(), b"rt::alloc: the allocator table lock is held forever (harness fault)\n");
                std::process::abort();
            }
        }
        // released on unwind too
        struct Unlock<'a>(&'a AtomicBool, bool);
        impl Drop for Unlock<'_> {
            fn drop(&mut self) {
                self.0.store(false, Ordering::Release);
                if !self.1 && std::env::var_os("TV_DEBUG_LOCK").is_some() {
                    eprintln!("rt::alloc: unwinding through the table lock:\n{}", std::backtrace::Backtrace::force_capture());
                }
            }
        }
        let mut u = Unlock(&self.lock, false);
        let r = f(unsafe { &mut *self.v.get() });
        u.1 = true;
        r
    }
}

static TABLE: Spin<Table> = Spin::new(Table { blocks: Vec::new(), events: Vec::new(), next_seq: 0, stale: std::collections::BTreeMap::new() });
static LIVE_BYTES: AtomicUsize = AtomicUsize::new(0);

struct BypassGuard;
impl BypassGuard {
    fn new() -> Self {
        let _ = BYPASS.try_with(|b| b.set(b.get() + 1));
        BypassGuard
    }
}
impl Drop for BypassGuard {
    fn drop(&mut self) {
        let _ = BYPASS.try_with(|b| b.set(b.get() - 1));
    }
}

struct InAlloc;
impl InAlloc {
    fn new() -> Self {
        let _ = IN_ALLOC.try_with(|b| b.set(b.get() + 1));
        InAlloc
    }
}
impl Drop for InAlloc {
    fn drop(&mut self) {
        let _ = IN_ALLOC.try_with(|b| b.set(b.get() - 1));
    }
}
fn internal<R>(f: impl FnOnce() -> R) -> R {
    let _g = InAlloc::new();
    f()
}
fn in_alloc() -> bool {
    IN_ALLOC.try_with(|b| b.get()).unwrap_or(1) != 0
}

/// Run harness-internal code whose allocations must not be attributed to the library.
pub fn untracked<R>(f: impl FnOnce() -> R) -> R {
    let _g = BypassGuard::new();
    f()
}

fn tracking_now() -> bool {
    let t = TRACK.try_with(|t| t.get()).unwrap_or(false);
    let b = BYPASS.try_with(|b| b.get()).unwrap_or(1);
    t && b == 0 && !in_alloc()
}

pub fn set_track(on: bool) -> bool {
    if on {
        EVER_TRACKED.store(true, Ordering::Relaxed);
    }
    TRACK.try_with(|t| t.replace(on)).unwrap_or(false)
}

/// Fail the k-th (1-based) tracked allocation of this thread from now on; 0 / negative = never.
pub fn fail_at(k: i64) {
    let _ = FAIL_AT.try_with(|f| f.set(if k <= 0 { -1 } else { k }));
}

pub fn tracked_allocs() -> u64 {
    TRACKED_ALLOCS.try_with(|c| c.get()).unwrap_or(0)
}

fn redzone(align: usize) -> usize {
    if cfg!(feature = "asan") {
        0
    } else {
        align.max(32)
    }
}

unsafe impl GlobalAlloc for Tracker {
    unsafe fn alloc(&self, layout: Layout) -> *mut u8 {
        if !tracking_now() {
            return System.alloc(layout);
        }
        let _g = InAlloc::new();
        let _ = TRACKED_ALLOCS.try_with(|c| c.set(c.get() + 1));
        let fail = FAIL_AT
            .try_with(|f| {
                let v = f.get();
                if v > 0 {
                    f.set(v - 1);
                    v == 1
                } else {
                    false
                }
            })
            .unwrap_or(false);
        if fail || layout.size() > MAX_REQ {
            return std::ptr::null_mut();
        }
        let rz = redzone(layout.align());
        let real_size = layout.size() + 2 * rz;
        let real_align = layout.align();
        let base = System.alloc(Layout::from_size_align_unchecked(real_size.max(1), real_align));
        if base.is_null() {
            return base;
        }
        let ptr = base.add(rz);
        if rz > 0 {
            std::ptr::write_bytes(base, CANARY, rz);
            std::ptr::write_bytes(ptr.add(layout.size()), CANARY, rz);
            std::ptr::write_bytes(ptr, FRESH, layout.size());
        }
        let step = STEP.load(Ordering::Relaxed);
        TABLE.with(|t| {
            let seq = t.next_seq;
            t.next_seq += 1;
            t.blocks.push(Block {
                ptr: ptr as usize,
                size: layout.size(),
                align: layout.align(),
                base: base as usize,
                real_size,
                real_align,
                live: true,
                born: step,
                died: 0,
                seq,
                stale: false,
            });
            t.events.push(Event::Alloc(seq));
        });
        LIVE_BYTES.fetch_add(layout.size(), Ordering::Relaxed);
        ptr
    }

    unsafe fn dealloc(&self, ptr: *mut u8, layout: Layout) {
        if in_alloc() || !EVER_TRACKED.load(Ordering::Relaxed) {
            return System.dealloc(ptr, layout);
        }
        let _g = InAlloc::new();
        let p = ptr as usize;
        enum Found {
            No,
            Interior(Block),
            Exact(Block, bool),
        }
        let step = STEP.load(Ordering::Relaxed);
        let found = TABLE.with(|t| {
            if t.blocks.is_empty() && t.stale.is_empty() {
                return Found::No;
            }
            // newest first: a pointer can appear only once among live blocks
            for b in t.blocks.iter_mut().rev() {
                if b.ptr == p {
                    let was_live = b.live;
                    if was_live {
                        b.live = false;
                        b.died = step;
                    }
                    let copy = *b;
                    let seq = b.seq;
                    if was_live && !b.stale {
                        t.events.push(Event::Free(seq));
                    }
                    return Found::Exact(copy, was_live);
                }
            }
            if let Some(b) = t.stale.remove(&p) {
                return Found::Exact(b, true);
            }
            for b in t.blocks.iter() {
                if p > b.ptr && p < b.ptr + b.size {
                    return Found::Interior(*b);
                }
            }
            Found::No
        });
        match found {
            Found::No => System.dealloc(ptr, layout),
            Found::Interior(b) => {
                viol::report(
                    &["C05", "C01", "C11"],
                    "F.interior-free",
                    format!(
                        "dealloc of {:#x} (size {}, align {}) which lies inside tracked block #{} [{:#x}, +{}]",
                        p,
                        layout.size(),
                        layout.align(),
                        b.seq,
                        b.ptr,
                        b.size
                    ),
                );
            }
            Found::Exact(b, was_live) => {
                if !was_live {
                    viol::report(
                        &["C01", "C05", "C09"],
                        "F.double-free",
                        format!(
                            "block #{} (size {}, align {}) freed again at step {} (first freed at step {})",
                            b.seq, b.size, b.align, step, b.died
                        ),
                    );
                    return;
                }
                if b.size != layout.size() || b.align != layout.align() {
                    viol::report(
                        &["C05"],
                        "F.layout-mismatch",
                        format!(
                            "block #{} allocated with (size {}, align {}) but freed with (size {}, align {})",
                            b.seq,
                            b.size,
                            b.align,
                            layout.size(),
                            layout.align()
                        ),
                    );
                }
                LIVE_BYTES.fetch_sub(b.size, Ordering::Relaxed);
                if !b.stale {
                    crate::sim::on_free(&b);
                }
                check_redzones(&b);
                if cfg!(feature = "asan") || b.stale {
                    System.dealloc(
                        b.base as *mut u8,
                        Layout::from_size_align_unchecked(b.real_size.max(1), b.real_align),
                    );
                } else {
                    std::ptr::write_bytes(b.ptr as *mut u8, FREED, b.size);
                }
            }
        }
    }
}

static EVER_TRACKED: AtomicBool = AtomicBool::new(false);

fn check_redzones(b: &Block) {
    let rz = b.ptr - b.base;
    if rz == 0 {
        return;
    }
    unsafe {
        let lo = std::slice::from_raw_parts(b.base as *const u8, rz);
        let hi = std::slice::from_raw_parts((b.ptr + b.size) as *const u8, rz);
        if let Some(i) = lo.iter().rposition(|&c| c != CANARY) {
            viol::report(
                &["C05", "C06"],
                "F.underrun",
                format!("block #{} (size {}, align {}): byte {} before the block was overwritten", b.seq, b.size, b.align, rz - i),
            );
        }
        if let Some(i) = hi.iter().position(|&c| c != CANARY) {
            viol::report(
                &["C05", "C06"],
                "F.overrun",
                format!("block #{} (size {}, align {}): byte {} past the end of the block was overwritten", b.seq, b.size, b.align, i),
            );
        }
    }
}

/// Effects of one bracketed library call.
#[derive(Clone, Debug, Default)]
pub struct Effects {
    pub allocs: Vec<Block>,
    pub frees: Vec<Block>,
}

/// Run `f` with allocation tracking on; returns what it allocated and freed.
pub fn track<R>(f: impl FnOnce() -> R) -> (R, Effects) {
    EVER_TRACKED.store(true, Ordering::Relaxed);
    let mark = internal(|| TABLE.with(|t| t.events.len()));
    struct Restore(bool);
    impl Drop for Restore {
        fn drop(&mut self) {
            set_track(self.0);
        }
    }
    let r = {
        let _g = Restore(set_track(true));
        f()
    };
    let eff = effects_since(mark);
    (r, eff)
}

pub fn event_mark() -> usize {
    internal(|| TABLE.with(|t| t.events.len()))
}

pub fn effects_since(mark: usize) -> Effects {
    internal(|| {
        TABLE.with(|t| {
            let mut e = Effects::default();
            for ev in &t.events[mark.min(t.events.len())..] {
                let find = |s: u32| t.blocks.iter().find(|b| b.seq == s && !b.stale).copied();
                match *ev {
                    Event::Alloc(s) => {
                        if let Some(b) = find(s) {
                            e.allocs.push(b)
                        }
                    }
                    Event::Free(s) => {
                        if let Some(b) = find(s) {
                            e.frees.push(b)
                        }
                    }
                }
            }
            e
        })
    })
}

/// Blocks currently live (tracked, not freed).
pub fn live_blocks() -> Vec<Block> {
    internal(|| TABLE.with(|t| t.blocks.iter().filter(|b| b.live && !b.stale).copied().collect()))
}

pub fn all_blocks() -> Vec<Block> {
    internal(|| TABLE.with(|t| t.blocks.clone()))
}

pub fn block_by_seq(seq: u32) -> Option<Block> {
    internal(|| TABLE.with(|t| t.blocks.iter().find(|b| b.seq == seq && !b.stale).copied()))
}

/// Which tracked block (newest first) contains `addr`.
pub fn classify(addr: usize) -> Option<Block> {
    internal(|| {
        TABLE.with(|t| {
            t.blocks
                .iter()
                .rev()
                .find(|b| !b.stale && addr >= b.ptr && addr < b.ptr + b.size.max(1))
                .copied()
        })
    })
}

/// Block whose user pointer is exactly `ptr`.
pub fn block_at(ptr: usize) -> Option<Block> {
    internal(|| TABLE.with(|t| t.blocks.iter().rev().find(|b| !b.stale && b.ptr == ptr).copied()))
}

/// End of a case: verify red zones of surviving blocks, really free everything, reset.
/// Returns the blocks that were still live.
pub fn case_end() -> Vec<Block> {
    internal(|| {
        let mut leaked = Vec::new();
        let mut dead = Vec::new();
        TABLE.with(|t| {
            t.events.clear();
            t.next_seq = 0;
            for mut b in std::mem::take(&mut t.blocks) {
                if b.live {
                    check_redzones(&b);
                    leaked.push(b);
                    b.stale = true;
                    t.stale.insert(b.ptr, b);
                } else {
                    dead.push(b);
                }
            }
        });
        if !cfg!(feature = "asan") {
            for b in &dead {
                unsafe {
                    System.dealloc(b.base as *mut u8, Layout::from_size_align_unchecked(b.real_size.max(1), b.real_align));
                }
            }
        }
        LIVE_BYTES.store(0, Ordering::Relaxed);
        STEP.store(0, Ordering::Relaxed);
        fail_at(0);
        leaked
    })
}

pub fn set_step(s: u32) {
    STEP.store(s, Ordering::Relaxed);
}
pub fn step() -> u32 {
    STEP.load(Ordering::Relaxed)
}
