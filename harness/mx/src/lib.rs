//! Shape-matrix engine (C05, C11, C12): a static matrix of (size, alignment) payload shapes
//! crossed with lengths, constructors, handle kinds and release paths. The oracle is
//! *observed*, not recomputed: the block the allocator handed out, the addresses the
//! handles expose, and the layout passed back on release.

use std::mem::{align_of, align_of_val, size_of, size_of_val, MaybeUninit};
use std::panic::{catch_unwind, AssertUnwindSafe};

use rt::alloc::{self, track, Block};
use rt::case::{pick, ByteCase};
use rt::run::{CaseReport, Engine};
use rt::tok::{Al, A1, A16, A2, A256, A32, A4, A4096, A64, A8};
use rt::viol;
use triomphe::{Arc, ArcBorrow, ArcUnion, ArcUnionBorrow, HeaderSlice, HeaderWithLength, OffsetArc, ThinArc, UniqueArc};

/// A plain shape: `N` pattern bytes at alignment `A` (size = N rounded up to A; N = 0 is a ZST).
#[derive(Clone, Copy, PartialEq, Eq, Debug)]
#[repr(C)]
pub struct S<A: Al, const N: usize> {
    _a: [A; 0],
    b: [u8; N],
}

pub trait Shape: Copy + PartialEq + Default + Send + Sync + std::fmt::Debug + 'static {
    const ALIGN: usize;
    const N: usize;
    fn pat(seed: u8) -> Self;
    fn ok(&self, seed: u8) -> bool;
}

impl<A: Al, const N: usize> Default for S<A, N> {
    fn default() -> Self {
        Self::pat(0)
    }
}

impl<A: Al, const N: usize> Shape for S<A, N> {
    const ALIGN: usize = A::ALIGN;
    const N: usize = N;
    fn pat(seed: u8) -> Self {
        let mut b = [0u8; N];
        for (i, x) in b.iter_mut().enumerate() {
            *x = seed.wrapping_mul(31).wrapping_add(i as u8) ^ 0xC3;
        }
        S { _a: [], b }
    }
    fn ok(&self, seed: u8) -> bool {
        self.b.iter().enumerate().all(|(i, x)| *x == seed.wrapping_mul(31).wrapping_add(i as u8) ^ 0xC3)
    }
}

/// a transparent wrapper: the same allocation seen through a different vtable
#[repr(transparent)]
pub struct Wrap<T>(pub T);
impl<T: Shape> DynShape for Wrap<T> {
    fn check(&self, seed: u8) -> bool {
        self.0.ok(seed)
    }
    fn sz(&self) -> usize {
        size_of::<T>() + 1_000_000
    }
}

pub trait DynShape {
    fn check(&self, seed: u8) -> bool;
    fn sz(&self) -> usize;
}
impl<T: Shape> DynShape for T {
    fn check(&self, seed: u8) -> bool {
        self.ok(seed)
    }
    fn sz(&self) -> usize {
        size_of::<T>()
    }
}

const P5: &[&str] = &["C05"];
const P11: &[&str] = &["C11"];
const P12: &[&str] = &["C12"];

macro_rules! lib {
    ($e:expr) => {
        track(|| $e).0
    };
}

struct Ctx {
    what: String,
    trace: Option<Vec<String>>,
    over_or_zst_or_padded: bool,
    release_differs: bool,
    moved_between: bool,
    union_nt: bool,
    lens: usize,
}

impl Ctx {
    fn log(&mut self, s: impl FnOnce() -> String) {
        if let Some(t) = self.trace.as_mut() {
            let l = s();
            rt::run::trace_stream(&l);
            t.push(l);
        }
    }
}

/// geometry oracle: `data`/`sz`/`al` describe the value the user sees, `heap` what heap_ptr said
fn geometry(cx: &mut Ctx, eff: &alloc::Effects, heap: Option<usize>, data: usize, sz: usize, al: usize) -> Block {
    let survivors: Vec<Block> = eff.allocs.iter().filter(|b| alloc::block_by_seq(b.seq).map(|x| x.live).unwrap_or(false)).copied().collect();
    if survivors.len() != 1 {
        viol::report(P5, "F.ctor-effect", format!("{}: {} surviving new blocks (expected exactly one; allocs {}, frees {})", cx.what, survivors.len(), eff.allocs.len(), eff.frees.len()));
    }
    let Some(bl) = survivors.first().copied() else { return Block::none() };
    if let Some(h) = heap {
        if h != bl.ptr {
            viol::report(P11, "P.heap-ptr", format!("{}: heap_ptr {:#x} is not the start {:#x} of the block obtained from the allocator", cx.what, h, bl.ptr));
        }
    }
    if bl.align < al.max(align_of::<usize>()) {
        viol::report(P5, "F.block-align", format!("{}: block requested with alignment {} but the contents need {}", cx.what, bl.align, al.max(align_of::<usize>())));
    }
    if data % al != 0 {
        viol::report(&["C05", "C11"], "F.misaligned", format!("{}: value address {:#x} is not aligned to {}", cx.what, data, al));
    }
    if data < bl.ptr + size_of::<usize>() || data + sz > bl.ptr + bl.size {
        viol::report(P5, "F.does-not-fit", format!("{}: value [{:#x}, +{}] does not fit in block [{:#x}, +{}] behind the count word", cx.what, data, sz, bl.ptr, bl.size));
    }
    let what = cx.what.clone();
    cx.log(|| format!("{}: block #{} [{:#x}, size {}, align {}], value at +{} size {} align {}", what, bl.seq, bl.ptr, bl.size, bl.align, data.wrapping_sub(bl.ptr), sz, al));
    bl
}

/// after the last release: the block was freed (exactly once, layout checked by the allocator), nothing else lives
fn released(cx: &mut Ctx, bl: &Block) {
    if bl.seq == u32::MAX {
        return;
    }
    match alloc::block_by_seq(bl.seq) {
        Some(b) if b.live => viol::report(&["C05", "C01"], "F.not-freed", format!("{}: block #{} is still allocated after the last handle was released", cx.what, bl.seq)),
        _ => {}
    }
    let live = alloc::live_blocks();
    if !live.is_empty() {
        viol::report(&["C05", "C01"], "F.leak", format!("{}: {} blocks still allocated after the last handle was released", cx.what, live.len()));
    }
    let what = cx.what.clone();
    cx.log(|| format!("{}: released, block #{} freed", what, bl.seq));
}

fn one_word<T>(name: &str) {
    if size_of::<T>() != size_of::<usize>() || size_of::<Option<T>>() != size_of::<usize>() {
        viol::report(&["C11", "C12"], "P.handle-size", format!("{}: size {} / Option size {} (expected one word with the null niche)", name, size_of::<T>(), size_of::<Option<T>>()));
    }
}
fn two_words<T>(name: &str) {
    if size_of::<T>() != 2 * size_of::<usize>() || size_of::<Option<T>>() != 2 * size_of::<usize>() {
        viol::report(P11, "P.handle-size", format!("{}: size {} / Option size {} (expected two words with the null niche)", name, size_of::<T>(), size_of::<Option<T>>()));
    }
}

/// stable-address marker traits (autoref probe: a missing impl is reported, not a build failure)
#[cfg(feature = "sdt")]
fn markers<H: Shape, E: Shape>(cx: &Ctx) {
    use stable_deref_trait::{CloneStableDeref, StableDeref};
    use std::marker::PhantomData;
    struct Pr<T: ?Sized>(PhantomData<T>);
    trait NoStable {
        fn stable(&self) -> bool {
            false
        }
    }
    trait NoClone {
        fn clone_stable(&self) -> bool {
            false
        }
    }
    impl<T: ?Sized> NoStable for &Pr<T> {}
    impl<T: ?Sized> NoClone for &Pr<T> {}
    impl<T: ?Sized + StableDeref> Pr<T> {
        fn stable(&self) -> bool {
            true
        }
    }
    impl<T: ?Sized + CloneStableDeref> Pr<T> {
        fn clone_stable(&self) -> bool {
            true
        }
    }
    macro_rules! both {
        ($t:ty, $n:expr) => {
            if !(&Pr::<$t>(PhantomData)).stable() || !(&Pr::<$t>(PhantomData)).clone_stable() {
                viol::report(P11, "P.stable-deref-marker", format!("{}: {} does not implement StableDeref + CloneStableDeref", cx.what, $n));
            }
        };
    }
    both!(Arc<E>, "Arc<T>");
    both!(Arc<[E]>, "Arc<[T]>");
    both!(Arc<str>, "Arc<str>");
    both!(Arc<dyn DynShape>, "Arc<dyn Trait>");
    both!(Arc<HeaderSlice<H, [E]>>, "Arc<HeaderSlice<H,[T]>>");
    both!(Arc<HeaderSlice<H, str>>, "Arc<HeaderSlice<H,str>>");
}

// ------------------------------------------------------------------------------------
// family 0: sized value E; every constructor x clones x release path
// ------------------------------------------------------------------------------------
fn fam_sized<E: Shape>(cx: &mut Ctx, p: &ByteCase) {
    type H = S<A2, 6>;
    let seed = p.p(4);
    let ctor = pick(p.p(5), 8);
    let nclones = pick(p.p(6), 4);
    let path = pick(p.p(7), 15);
    cx.release_differs = path != 0;
    #[cfg(feature = "sdt")]
    markers::<H, E>(cx);
    one_word::<Arc<E>>("Arc<T>");
    one_word::<OffsetArc<E>>("OffsetArc<T>");
    one_word::<UniqueArc<E>>("UniqueArc<T>");
    one_word::<ArcBorrow<'static, E>>("ArcBorrow<T>");
    two_words::<Arc<dyn DynShape>>("Arc<dyn Trait>");
    two_words::<Arc<[E]>>("Arc<[T]>");
    one_word::<ThinArc<H, E>>("ThinArc<H,T>");
    one_word::<ArcUnion<H, E>>("ArcUnion<A,B>");
    let names = ["Arc::new", "Arc::from(T)", "Arc::from(Box<T>)", "Arc::default", "UniqueArc::new", "Arc::new_uninit+write", "UniqueArc::new_uninit+write", "Arc::new(HeaderSlice{(),T}) erased"];
    cx.what = format!("sized<align {}, n {}> {} x{} clones, release path {}", E::ALIGN, E::N, names[ctor], nclones, path);
    let dseed = if ctor == 3 { 0 } else { seed };
    let (a, eff): (Arc<E>, _) = track(|| match ctor {
        0 => Arc::new(E::pat(seed)),
        1 => Arc::from(E::pat(seed)),
        2 => Arc::from(Box::new(E::pat(seed))),
        3 => Arc::<E>::default(),
        4 => UniqueArc::new(E::pat(seed)).shareable(),
        5 => {
            #[allow(deprecated)]
            {
                let mut u = Arc::<MaybeUninit<E>>::new_uninit();
                u.write(E::pat(seed));
                unsafe { u.assume_init() }
            }
        }
        6 => {
            let mut u = UniqueArc::<E>::new_uninit();
            u.write(E::pat(seed));
            unsafe { UniqueArc::assume_init(u) }.shareable()
        }
        _ => Arc::<E>::from(Arc::new(HeaderSlice { header: (), slice: E::pat(seed) })),
    });
    let data = &*a as *const E as usize;
    let bl = geometry(cx, &eff, Some(a.heap_ptr() as usize), data, size_of::<E>(), align_of::<E>());
    if Arc::as_ptr(&a) as usize != data {
        viol::report(P11, "P.as-ptr", format!("{}: as_ptr {:#x} != Deref address {:#x}", cx.what, Arc::as_ptr(&a) as usize, data));
    }
    if !a.ok(dseed) {
        viol::report(&["C05", "C06"], "F.contents", format!("{}: contents read back wrong", cx.what));
    }
    let clones: Vec<Arc<E>> = (0..nclones).map(|_| lib!(a.clone())).collect();
    for c in &clones {
        if Arc::as_ptr(c) as usize != data {
            viol::report(P11, "P.clone-addr", format!("{}: a clone's as_ptr differs", cx.what));
        }
    }
    cx.moved_between = nclones > 0;
    let expect_count = 1 + nclones;
    // release path of the original handle
    match path {
        0 => lib!(drop(a)),
        1 => {
            let o = lib!(Arc::into_raw_offset(a));
            let bits: usize = unsafe { std::mem::transmute_copy(&o) };
            if bits != data {
                viol::report(P11, "P.offset-bits", format!("{}: OffsetArc bit pattern {:#x} is not the value address {:#x}", cx.what, bits, data));
            }
            if OffsetArc::strong_count(&o) != expect_count {
                viol::report(&["C04", "C11"], "N.count", format!("{}: OffsetArc::strong_count {} != {}", cx.what, OffsetArc::strong_count(&o), expect_count));
            }
            lib!(drop(o))
        }
        2 => {
            let u: ArcUnion<E, H> = lib!(ArcUnion::from_first(a));
            lib!(drop(u))
        }
        3 => {
            let u: ArcUnion<H, E> = lib!(ArcUnion::from_second(a));
            lib!(drop(u))
        }
        4 => {
            let raw = lib!(Arc::into_raw(a));
            if raw as usize != data {
                viol::report(P11, "P.into-raw", format!("{}: into_raw {:#x} != value address {:#x}", cx.what, raw as usize, data));
            }
            let moved = Box::new(raw);
            let back = lib!(unsafe { Arc::from_raw(*moved) });
            if back.heap_ptr() as usize != bl.ptr || !back.ok(dseed) || Arc::count(&back) != expect_count {
                viol::report(P11, "P.roundtrip", format!("{}: from_raw(into_raw) recovered block {:#x} count {} (expected {:#x}, {})", cx.what, back.heap_ptr() as usize, Arc::count(&back), bl.ptr, expect_count));
            }
            lib!(drop(back))
        }
        5 => {
            let raw: *const E = lib!(Arc::into_raw(a));
            let d: Arc<dyn DynShape> = lib!(unsafe { Arc::from_raw(raw as *const dyn DynShape) });
            if d.heap_ptr() as usize != bl.ptr || !d.check(dseed) || Arc::as_ptr(&d) as *const () as usize != data || size_of_val(&*d) != size_of::<E>() || align_of_val(&*d) != align_of::<E>() {
                viol::report(P11, "P.dyn-roundtrip", format!("{}: Arc<dyn> from a cast raw pointer: heap {:#x} data {:#x} (expected {:#x}, {:#x})", cx.what, d.heap_ptr() as usize, Arc::as_ptr(&d) as *const () as usize, bl.ptr, data));
            }
            lib!(drop(d))
        }
        6 => {
            #[cfg(feature = "unsize")]
            {
                use unsize::CoerceUnsize;
                let d: Arc<dyn DynShape> = lib!(a.unsize(unsize::Coercion!(to dyn DynShape)));
                if d.heap_ptr() as usize != bl.ptr || !d.check(dseed) {
                    viol::report(P11, "P.unsize", format!("{}: unsized Arc<dyn> points elsewhere", cx.what));
                }
                lib!(drop(d))
            }
            #[cfg(not(feature = "unsize"))]
            lib!(drop(a))
        }
        7 => {
            let h: Arc<HeaderSlice<(), E>> = lib!(a.into());
            if h.heap_ptr() as usize != bl.ptr || &h.slice as *const E as usize != data {
                viol::report(P11, "P.erasure", format!("{}: header-erased view moved", cx.what));
            }
            lib!(drop(h))
        }
        8 => match { let lm = viol::count_clause("F.layout-mismatch"); let r = lib!(Arc::try_unwrap(a)); if viol::count_clause("F.layout-mismatch") > lm { viol::report(&["C09"], "X.release-layout", format!("{}: try_unwrap released the block with a layout different from the one it was requested with", cx.what)); } r } {
            Ok(v) => {
                if nclones != 0 || !v.ok(dseed) {
                    viol::report(&["C09", "C05"], "X.try-unwrap", format!("{}: try_unwrap succeeded with {} clones / wrong value", cx.what, nclones));
                }
            }
            Err(a) => {
                if nclones == 0 {
                    viol::report(&["C09"], "X.verdict", format!("{}: try_unwrap declined on a sole owner", cx.what));
                }
                lib!(drop(a))
            }
        },
        9 => match lib!(Arc::try_unique(a)) {
            Ok(u) => {
                let lm = viol::count_clause("F.layout-mismatch");
                let v = lib!(UniqueArc::into_inner(u));
                if viol::count_clause("F.layout-mismatch") > lm {
                    viol::report(&["C09"], "X.release-layout", format!("{}: UniqueArc::into_inner released the block with a layout different from the one it was requested with", cx.what));
                }
                if !v.ok(dseed) {
                    viol::report(&["C09", "C05"], "X.into-inner", format!("{}: into_inner returned wrong contents", cx.what));
                }
            }
            Err(a) => lib!(drop(a)),
        },
        10 => {
            let b = unsafe { ArcBorrow::from_ptr(Arc::as_ptr(&a)) };
            let bits: usize = unsafe { std::mem::transmute_copy(&b) };
            if bits != data || b.get() as *const E as usize != data {
                viol::report(P11, "P.borrow-bits", format!("{}: ArcBorrow bit pattern {:#x} is not the value address {:#x}", cx.what, bits, data));
            }
            let extra = lib!(b.clone_arc());
            if Arc::count(&extra) != expect_count + 1 {
                viol::report(&["C04"], "N.count", format!("{}: count after clone_arc {} != {}", cx.what, Arc::count(&extra), expect_count + 1));
            }
            lib!(drop(extra));
            lib!(drop(a))
        }
        12 => {
            // two trait-object handles to one allocation obtained by different routes
            let c2 = lib!(a.clone());
            let raw: *const E = lib!(Arc::into_raw(a));
            let d1: Arc<dyn DynShape> = lib!(unsafe { Arc::from_raw(raw as *const dyn DynShape) });
            let raw2: *const E = lib!(Arc::into_raw(c2));
            let d2: Arc<dyn DynShape> = lib!(unsafe { Arc::from_raw(raw2 as *const dyn DynShape) });
            let d3 = lib!(d1.clone());
            // ... and one through a different vtable (documented: ptr_eq ignores the metadata of dyn pointers)
            let c3 = lib!(d1.clone());
            let raw3: *const dyn DynShape = lib!(Arc::into_raw(c3));
            let d4: Arc<dyn DynShape> = lib!(unsafe { Arc::from_raw(raw3 as *const E as *const Wrap<E> as *const dyn DynShape) });
            if d4.sz() == d1.sz() {
                viol::report(&["C11"], "M.harness", "harness: the wrapper view did not get its own vtable".into());
            }
            if !Arc::ptr_eq(&d1, &d4) || d4.heap_ptr() != d1.heap_ptr() || !d4.check(dseed) {
                viol::report(P11, "P.dyn-ptr-eq-vtable", format!("{}: two trait-object handles to one allocation with different vtables are not ptr_eq (or differ in heap_ptr / contents)", cx.what));
            }
            lib!(drop(d4));
            if !Arc::ptr_eq(&d1, &d2) || !Arc::ptr_eq(&d1, &d3) || d1.heap_ptr() != d2.heap_ptr() {
                viol::report(P11, "P.dyn-ptr-eq", format!("{}: trait-object handles to one allocation are not ptr_eq / differ in heap_ptr", cx.what));
            }
            if Arc::count(&d1) != expect_count + 2 {
                viol::report(&["C04", "C11"], "N.count", format!("{}: count {} after two dyn views and a clone (expected {})", cx.what, Arc::count(&d1), expect_count + 2));
            }
            lib!(drop(d3));
            lib!(drop(d1));
            lib!(drop(d2))
        }
        13 => {
            #[cfg(feature = "unsize")]
            {
                use unsize::CoerceUnsize;
                // ArcBorrow and UniqueArc coercions
                let b = a.borrow_arc();
                let db: ArcBorrow<'_, dyn DynShape> = b.unsize(unsize::Coercion!(to dyn DynShape));
                let bits: usize = unsafe { std::mem::transmute_copy::<ArcBorrow<'_, dyn DynShape>, [usize; 2]>(&db) }[0];
                if bits != data || Arc::count(&a) != expect_count {
                    viol::report(P11, "P.unsize-borrow", format!("{}: unsized ArcBorrow points at {:#x} (value at {:#x}), count {}", cx.what, bits, data, Arc::count(&a)));
                }
                if nclones == 0 {
                    match lib!(Arc::try_unique(a)) {
                        Ok(u) => {
                            let du: UniqueArc<dyn DynShape> = lib!(u.unsize(unsize::Coercion!(to dyn DynShape)));
                            if !du.check(dseed) || &*du as *const dyn DynShape as *const () as usize != data {
                                viol::report(P11, "P.unsize-unique", format!("{}: unsized UniqueArc moved or reads wrong contents", cx.what));
                            }
                            let sh = lib!(du.shareable());
                            if sh.heap_ptr() as usize != bl.ptr || Arc::count(&sh) != 1 {
                                viol::report(P11, "P.unsize-unique", format!("{}: unsized UniqueArc -> shareable: heap {:#x} count {}", cx.what, sh.heap_ptr() as usize, Arc::count(&sh)));
                            }
                            lib!(drop(sh))
                        }
                        Err(a) => lib!(drop(a)),
                    }
                } else {
                    lib!(drop(a))
                }
            }
            #[cfg(not(feature = "unsize"))]
            lib!(drop(a))
        }
        14 => {
            // slice view through unsize (feature) or drop
            #[cfg(feature = "unsize")]
            {
                use unsize::CoerceUnsize;
                let arr: Arc<[E; 3]> = lib!(Arc::new([E::pat(dseed), E::pat(dseed), E::pat(dseed)]));
                let hp = arr.heap_ptr() as usize;
                let sl: Arc<[E]> = lib!(arr.unsize(unsize::Coercion::to_slice()));
                if sl.heap_ptr() as usize != hp || sl.len() != 3 || !sl[2].ok(dseed) {
                    viol::report(P11, "P.unsize-slice", format!("{}: array -> slice coercion moved the allocation or changed contents", cx.what));
                }
                lib!(drop(sl));
            }
            lib!(drop(a))
        }
        _ => {
            #[cfg(feature = "arc-swap")]
            {
                use arc_swap::RefCnt;
                let ap = <Arc<E> as RefCnt>::as_ptr(&a) as usize;
                let ip = <Arc<E> as RefCnt>::into_ptr(a);
                if ap != data || ip as usize != data {
                    viol::report(P11, "P.refcnt", format!("{}: RefCnt::as_ptr/into_ptr {:#x}/{:#x} != value address {:#x}", cx.what, ap, ip as usize, data));
                }
                let back = unsafe { <Arc<E> as RefCnt>::from_ptr(ip) };
                if back.heap_ptr() as usize != bl.ptr {
                    viol::report(P11, "P.refcnt", format!("{}: RefCnt::from_ptr recovered another block", cx.what));
                }
                lib!(drop(back))
            }
            #[cfg(not(feature = "arc-swap"))]
            lib!(drop(a))
        }
    }
    // clones go last, in generated order
    let mut clones = clones;
    let mut k = 8;
    while !clones.is_empty() {
        let i = pick(p.p(k), clones.len());
        k += 1;
        let c = clones.remove(i);
        if !c.ok(dseed) {
            viol::report(&["C01", "C05"], "L.value", format!("{}: a surviving clone reads wrong contents", cx.what));
        }
        lib!(drop(c));
    }
    released(cx, &bl);
}

// ------------------------------------------------------------------------------------
// family 1/2: header + slice, fat and thin
// ------------------------------------------------------------------------------------
fn check_slice<E: Shape>(cx: &Ctx, s: &[E], len: usize, seed: u8) {
    if s.len() != len {
        viol::report(&["C05", "C06", "C10"], "F.len", format!("{}: slice has {} elements, built with {}", cx.what, s.len(), len));
        return;
    }
    for (i, e) in s.iter().enumerate() {
        if !e.ok(seed.wrapping_add(i as u8)) {
            viol::report(&["C05", "C06"], "F.contents", format!("{}: element {} reads back wrong", cx.what, i));
            return;
        }
    }
}

fn fam_hs<H: Shape, E: Shape>(cx: &mut Ctx, p: &ByteCase, thin: bool) {
    let seed = p.p(4);
    let len = LENS[pick(p.p(5), LENS.len())];
    cx.lens = len;
    let ctor = pick(p.p(6), if thin { 2 } else { 4 });
    let path = pick(p.p(7), if thin { 6 } else { 4 });
    cx.release_differs = path != 0;
    let items: Vec<E> = (0..len).map(|i| E::pat(seed.wrapping_add(i as u8))).collect();
    let zst = size_of::<E>() == 0;
    if thin {
        let names = ["ThinArc::from_header_and_iter", "ThinArc::from_header_and_slice"];
        cx.what = format!("thin<H align {} n {}, T align {} n {}> len {} {} release path {}", H::ALIGN, H::N, E::ALIGN, E::N, len, names[ctor], path);
        let r = catch_unwind(AssertUnwindSafe(|| {
            track(|| match ctor {
                0 => ThinArc::from_header_and_iter(H::pat(seed ^ 0x55), items.clone().into_iter()),
                _ => ThinArc::from_header_and_slice(H::pat(seed ^ 0x55), &items),
            })
        }));
        let (t, eff) = match r {
            Ok(x) => x,
            Err(e) => {
                drop(e);
                if !zst {
                    viol::report(&["C05", "C06"], "F.ctor-panic", format!("{}: constructor panicked for a non-zero-sized element type", cx.what));
                }
                if !alloc::live_blocks().is_empty() {
                    viol::report(&["C05", "C06"], "F.leak", format!("{}: up-front refusal left a block allocated", cx.what));
                }
                return;
            }
        };
        let hdr = &t.header.header as *const H as usize;
        let bl = geometry(cx, &eff, Some(t.heap_ptr() as usize), hdr, size_of_val(&*t), align_of_val(&*t));
        if !t.header.header.ok(seed ^ 0x55) || t.header.length != len {
            viol::report(&["C05", "C06", "C10"], "F.contents", format!("{}: header or recorded length ({}) wrong", cx.what, t.header.length));
        }
        check_slice(cx, &t.slice, len, seed);
        let sl = t.slice.as_ptr() as usize;
        if sl % align_of::<E>() != 0 || sl + len * size_of::<E>() > bl.ptr + bl.size {
            viol::report(P5, "F.does-not-fit", format!("{}: slice [{:#x}, +{}] outside block or misaligned", cx.what, sl, len * size_of::<E>()));
        }
        match path {
            0 => lib!(drop(t)),
            1 => {
                let a = lib!(Arc::from_thin(t));
                if a.heap_ptr() as usize != bl.ptr || a.slice.as_ptr() as usize != sl {
                    viol::report(&["C10", "C11"], "T.addr", format!("{}: fat view of the thin arc is elsewhere", cx.what));
                }
                check_slice(cx, &a.slice, len, seed);
                lib!(drop(a))
            }
            2 => {
                let raw = lib!(t.into_raw());
                if raw as usize != bl.ptr {
                    viol::report(P11, "P.thin-raw", format!("{}: ThinArc::into_raw {:#x} is not the block start {:#x}", cx.what, raw as usize, bl.ptr));
                }
                let back: ThinArc<H, E> = lib!(unsafe { ThinArc::from_raw(raw) });
                check_slice(cx, &back.slice, len, seed);
                lib!(drop(back))
            }
            3 => {
                let c = lib!(t.clone());
                lib!(drop(t));
                check_slice(cx, &c.slice, len, seed);
                if ThinArc::strong_count(&c) != 1 {
                    viol::report(&["C04"], "N.count", format!("{}: count {} after dropping the original", cx.what, ThinArc::strong_count(&c)));
                }
                lib!(drop(c))
            }
            5 => {
                #[cfg(feature = "arc-swap")]
                {
                    use arc_swap::RefCnt;
                    let ap = <ThinArc<H, E> as RefCnt>::as_ptr(&t) as usize;
                    let c = lib!(t.clone());
                    let ip = <ThinArc<H, E> as RefCnt>::into_ptr(t) as usize;
                    if ap != ip || ap != bl.ptr {
                        viol::report(P11, "P.refcnt-thin", format!("{}: RefCnt::as_ptr {:#x} / into_ptr {:#x} / block {:#x} disagree", cx.what, ap, ip, bl.ptr));
                    }
                    let back = unsafe { <ThinArc<H, E> as RefCnt>::from_ptr(ip as *const _) };
                    if back.heap_ptr() as usize != bl.ptr || ThinArc::strong_count(&back) != 2 {
                        viol::report(P11, "P.refcnt-thin", format!("{}: RefCnt::from_ptr recovered block {:#x} count {}", cx.what, back.heap_ptr() as usize, ThinArc::strong_count(&back)));
                    }
                    check_slice(cx, &back.slice, len, seed);
                    lib!(drop(back));
                    lib!(drop(c))
                }
                #[cfg(not(feature = "arc-swap"))]
                lib!(drop(t))
            }
            _ => {
                let a = lib!(Arc::from_thin(t));
                let back = lib!(Arc::into_thin(a));
                if back.heap_ptr() as usize != bl.ptr {
                    viol::report(&["C10"], "T.roundtrip", format!("{}: thin->fat->thin moved", cx.what));
                }
                lib!(drop(back))
            }
        }
        released(cx, &bl);
        return;
    }
    let names = ["Arc::from_header_and_iter", "Arc::from_header_and_vec", "Arc::from_header_and_slice", "UniqueArc::from_header_and_uninit_slice+assume_init"];
    cx.what = format!("hs<H align {} n {}, T align {} n {}> len {} {} release path {}", H::ALIGN, H::N, E::ALIGN, E::N, len, names[ctor], path);
    let r = catch_unwind(AssertUnwindSafe(|| {
        track(|| -> Arc<HeaderSlice<H, [E]>> {
            match ctor {
                0 => Arc::from_header_and_iter(H::pat(seed ^ 0x55), items.clone().into_iter()),
                1 => Arc::from_header_and_vec(H::pat(seed ^ 0x55), items.clone()),
                2 => Arc::from_header_and_slice(H::pat(seed ^ 0x55), &items),
                _ => {
                    let mut u = UniqueArc::<HeaderSlice<H, [MaybeUninit<E>]>>::from_header_and_uninit_slice(H::pat(seed ^ 0x55), len);
                    for (d, s) in u.slice.iter_mut().zip(items.iter()) {
                        d.write(*s);
                    }
                    unsafe { u.assume_init_slice_with_header() }.shareable()
                }
            }
        })
    }));
    let (a, eff) = match r {
        Ok(x) => x,
        Err(e) => {
            drop(e);
            if !zst {
                viol::report(&["C05", "C06"], "F.ctor-panic", format!("{}: constructor panicked for a non-zero-sized element type", cx.what));
            }
            if !alloc::live_blocks().is_empty() {
                viol::report(&["C05", "C06"], "F.leak", format!("{}: up-front refusal left a block allocated", cx.what));
            }
            return;
        }
    };
    // (the Vec given to from_header_and_vec is freed inside the call: it shows as a non-surviving block)
    let hdr = &a.header as *const H as usize;
    let bl = geometry(cx, &eff, Some(a.heap_ptr() as usize), Arc::as_ptr(&a) as *const () as usize, size_of_val(&*a), align_of_val(&*a));
    if hdr != Arc::as_ptr(&a) as *const () as usize || !a.header.ok(seed ^ 0x55) {
        viol::report(&["C05", "C06"], "F.contents", format!("{}: header wrong or not at the value address", cx.what));
    }
    check_slice(cx, &a.slice, len, seed);
    let sl = a.slice.as_ptr() as usize;
    if sl % align_of::<E>() != 0 || sl + len * size_of::<E>() > bl.ptr + bl.size {
        viol::report(P5, "F.does-not-fit", format!("{}: slice [{:#x}, +{}] outside block or misaligned", cx.what, sl, len * size_of::<E>()));
    }
    match path {
        0 => lib!(drop(a)),
        1 => {
            let raw = lib!(Arc::into_raw(a));
            let back = lib!(unsafe { Arc::from_raw(raw) });
            if back.heap_ptr() as usize != bl.ptr {
                viol::report(P11, "P.roundtrip", format!("{}: fat from_raw(into_raw) recovered another block", cx.what));
            }
            check_slice(cx, &back.slice, len, seed);
            lib!(drop(back))
        }
        2 => match lib!(Arc::try_unique(a)) {
            Ok(u) => lib!(drop(u)),
            Err(_) => viol::report(&["C03"], "U.verdict", format!("{}: try_unique declined on a fresh Arc", cx.what)),
        },
        _ => {
            let c = lib!(a.clone());
            lib!(drop(a));
            check_slice(cx, &c.slice, len, seed);
            lib!(drop(c))
        }
    }
    released(cx, &bl);
}

pub const LENS: [usize; 14] = [0, 1, 2, 3, 4, 5, 7, 8, 9, 15, 16, 17, 31, 40];

// ------------------------------------------------------------------------------------
// family 3: plain slices Arc<[E]>
// ------------------------------------------------------------------------------------
fn fam_slice<E: Shape>(cx: &mut Ctx, p: &ByteCase) {
    let seed = p.p(4);
    let len = LENS[pick(p.p(5), LENS.len())];
    cx.lens = len;
    let ctor = pick(p.p(6), 7);
    let path = pick(p.p(7), 5);
    cx.release_differs = path != 0;
    let zst = size_of::<E>() == 0;
    let items: Vec<E> = (0..len).map(|i| E::pat(seed.wrapping_add(i as u8))).collect();
    let names = ["Arc::from(Vec)", "Arc::from(&[T])", "collect (exact hint)", "collect (inexact hint)", "Arc::new_uninit_slice+assume_init", "UniqueArc::new_uninit_slice+assume_init_slice", "Arc<HeaderSlice<(),[T]>> -> Arc<[T]>"];
    cx.what = format!("slice<T align {} n {}> len {} {} release path {}", E::ALIGN, E::N, len, names[ctor], path);
    let r = catch_unwind(AssertUnwindSafe(|| {
        track(|| -> Arc<[E]> {
            match ctor {
                0 => {
                    let mut v = items.clone();
                    v.reserve(pick(p.p(8), 9));
                    Arc::from(v)
                }
                1 => Arc::from(&items[..]),
                2 => items.iter().copied().collect(),
                3 => items.iter().copied().filter(|_| true).collect(),
                4 => {
                    let mut u = Arc::<[MaybeUninit<E>]>::new_uninit_slice(len);
                    for (d, s) in Arc::get_mut(&mut u).unwrap().iter_mut().zip(items.iter()) {
                        d.write(*s);
                    }
                    unsafe { u.assume_init() }
                }
                5 => {
                    let mut u = UniqueArc::<[MaybeUninit<E>]>::new_uninit_slice(len);
                    for (d, s) in u.iter_mut().zip(items.iter()) {
                        d.write(*s);
                    }
                    unsafe { UniqueArc::assume_init_slice(u) }.shareable()
                }
                _ => Arc::<[E]>::from(Arc::from_header_and_vec((), items.clone())),
            }
        })
    }));
    let (a, eff) = match r {
        Ok(x) => x,
        Err(e) => {
            drop(e);
            if !zst {
                viol::report(&["C05", "C06"], "F.ctor-panic", format!("{}: constructor panicked for a non-zero-sized element type", cx.what));
            }
            if !alloc::live_blocks().is_empty() {
                viol::report(&["C05", "C06"], "F.leak", format!("{}: up-front refusal left a block allocated", cx.what));
            }
            return;
        }
    };
    let data = (*a).as_ptr() as usize;
    let bl = geometry(cx, &eff, Some(a.heap_ptr() as usize), data, size_of_val(&*a), align_of::<E>());
    if Arc::as_ptr(&a) as *const E as usize != data {
        viol::report(P11, "P.as-ptr", format!("{}: as_ptr differs from the slice address", cx.what));
    }
    check_slice(cx, &a, len, seed);
    match path {
        0 => lib!(drop(a)),
        1 => {
            let h: Arc<HeaderSlice<(), [E]>> = lib!(a.into());
            if h.heap_ptr() as usize != bl.ptr || h.slice.as_ptr() as usize != data {
                viol::report(P11, "P.erasure", format!("{}: Arc<HeaderSlice<(),[T]>> view moved", cx.what));
            }
            check_slice(cx, &h.slice, len, seed);
            lib!(drop(h))
        }
        2 => {
            let raw: *const [E] = lib!(Arc::into_raw(a));
            if raw as *const E as usize != data {
                viol::report(P11, "P.into-raw", format!("{}: into_raw differs from the slice address", cx.what));
            }
            let back = lib!(unsafe { Arc::from_raw_slice(raw) });
            if back.heap_ptr() as usize != bl.ptr || Arc::count(&back) != 1 {
                viol::report(P11, "P.roundtrip", format!("{}: from_raw_slice recovered block {:#x} count {}", cx.what, back.heap_ptr() as usize, Arc::count(&back)));
            }
            check_slice(cx, &back, len, seed);
            lib!(drop(back))
        }
        3 => match lib!(Arc::try_unique(a)) {
            Ok(u) => lib!(drop(u)),
            Err(_) => viol::report(&["C03"], "U.verdict", format!("{}: try_unique declined on a fresh Arc", cx.what)),
        },
        _ => {
            let c = lib!(a.clone());
            let c2 = lib!(c.clone());
            lib!(drop(a));
            lib!(drop(c2));
            check_slice(cx, &c, len, seed);
            lib!(drop(c))
        }
    }
    released(cx, &bl);
}

// ------------------------------------------------------------------------------------
// family 5: str payloads (header shape H)
// ------------------------------------------------------------------------------------
fn fam_str<H: Shape>(cx: &mut Ctx, p: &ByteCase) {
    let seed = p.p(4);
    let n = [0usize, 1, 3, 7, 8, 9, 15, 16, 17, 40, 255, 256, 257][pick(p.p(5), 13)];
    cx.lens = n;
    let chars = ['a', 'é', '漢', '🦀'];
    let s: String = (0..n).map(|i| chars[(seed as usize + i) % 4]).collect();
    let ctor = pick(p.p(6), 3);
    let path = pick(p.p(7), 4);
    cx.release_differs = path != 0;
    two_words::<Arc<str>>("Arc<str>");
    cx.what = format!("str<{} bytes, H align {} n {}> {} release path {}", s.len(), H::ALIGN, H::N, ["Arc::<str>::from(&str)", "Arc::<str>::from(String)", "Arc::from_header_and_str"][ctor], path);
    if ctor == 2 {
        let (a, eff) = track(|| Arc::from_header_and_str(H::pat(seed), &s));
        let bl = geometry(cx, &eff, Some(a.heap_ptr() as usize), Arc::as_ptr(&a) as *const () as usize, size_of_val(&*a), align_of_val(&*a));
        if &a.slice != &s[..] || !a.header.ok(seed) || a.slice.as_ptr() as usize + s.len() > bl.ptr + bl.size {
            viol::report(&["C05", "C06"], "F.contents", format!("{}: contents/header wrong or outside the block", cx.what));
        }
        match path {
            1 => {
                let raw = lib!(Arc::into_raw(a));
                let back = lib!(unsafe { Arc::from_raw(raw) });
                if back.heap_ptr() as usize != bl.ptr || &back.slice != &s[..] {
                    viol::report(P11, "P.roundtrip", format!("{}: from_raw(into_raw) on Arc<HeaderSlice<H,str>> recovered another block / contents", cx.what));
                }
                lib!(drop(back))
            }
            2 => {
                let c = lib!(a.clone());
                lib!(drop(a));
                lib!(drop(c))
            }
            _ => lib!(drop(a)),
        }
        released(cx, &bl);
        return;
    }
    let (a, eff): (Arc<str>, _) = track(|| if ctor == 0 { Arc::from(&s[..]) } else { Arc::from(s.clone()) });
    let data = (*a).as_ptr() as usize;
    let bl = geometry(cx, &eff, Some(a.heap_ptr() as usize), data, s.len(), 1);
    if &*a != &s[..] || Arc::as_ptr(&a) as *const u8 as usize != data {
        viol::report(&["C05", "C06", "C11"], "F.contents", format!("{}: contents wrong or as_ptr differs from the str address", cx.what));
    }
    match path {
        1 => {
            let raw: *const str = lib!(Arc::into_raw(a));
            let back: Arc<str> = lib!(unsafe { Arc::from_raw(raw) });
            if back.heap_ptr() as usize != bl.ptr || &*back != &s[..] || Arc::count(&back) != 1 {
                viol::report(P11, "P.roundtrip", format!("{}: from_raw(into_raw) on Arc<str> recovered block {:#x} count {}", cx.what, back.heap_ptr() as usize, Arc::count(&back)));
            }
            lib!(drop(back))
        }
        2 => {
            let h: Arc<HeaderSlice<(), str>> = lib!(a.into());
            if h.heap_ptr() as usize != bl.ptr || &h.slice != &s[..] {
                viol::report(P11, "P.erasure", format!("{}: Arc<HeaderSlice<(),str>> view moved", cx.what));
            }
            let back: Arc<str> = lib!(h.into());
            lib!(drop(back))
        }
        3 => {
            let c = lib!(a.clone());
            if !Arc::ptr_eq(&a, &c) {
                viol::report(P11, "P.ptr-eq", format!("{}: a clone is not ptr_eq", cx.what));
            }
            lib!(drop(a));
            lib!(drop(c))
        }
        _ => lib!(drop(a)),
    }
    released(cx, &bl);
}

// ------------------------------------------------------------------------------------
// family 4: ArcUnion<A, B> histories
// ------------------------------------------------------------------------------------
fn fam_union<A: Shape, B: Shape>(cx: &mut Ctx, p: &ByteCase) {
    one_word::<ArcUnion<A, B>>("ArcUnion<A,B>");
    let seed = p.p(4);
    let second = p.p(5) & 1 == 1;
    cx.what = format!("union<A align {} n {}, B align {} n {}> built from_{}", A::ALIGN, A::N, B::ALIGN, B::N, if second { "second" } else { "first" });
    // the two allocations
    let (aa, ea) = track(|| Arc::new(A::pat(seed)));
    let (ab, eb) = track(|| Arc::new(B::pat(seed ^ 0x77)));
    let mut bl_a = geometry(cx, &ea, Some(aa.heap_ptr() as usize), Arc::as_ptr(&aa) as usize, size_of::<A>(), align_of::<A>());
    bl_a.seq = ea.allocs.first().map(|b| b.seq).unwrap_or(u32::MAX);
    let bl_b = {
        let survivors: Vec<Block> = eb.allocs.clone();
        survivors.first().copied().unwrap_or_else(Block::none)
    };
    let (addr_a, addr_b) = (Arc::as_ptr(&aa) as usize, Arc::as_ptr(&ab) as usize);
    if addr_a & 1 != 0 || addr_b & 1 != 0 {
        viol::report(P12, "V.low-bit", format!("{}: a payload address has its low bit set ({:#x}, {:#x})", cx.what, addr_a, addr_b));
    }
    let mut plain_a: Vec<Arc<A>> = vec![];
    let mut plain_b: Vec<Arc<B>> = vec![];
    let mut unions: Vec<ArcUnion<A, B>> = vec![];
    let (mut owners_a, mut owners_b) = (1usize, 1usize);
    if second {
        unions.push(lib!(ArcUnion::from_second(ab)));
        plain_a.push(aa);
    } else {
        unions.push(lib!(ArcUnion::from_first(aa)));
        plain_b.push(ab);
    }
    let mut union_clones = 0;
    let check = |cx: &Ctx, u: &ArcUnion<A, B>, owners: usize| {
        if u.is_first() == second || u.is_second() != second {
            viol::report(P12, "V.variant", format!("{}: is_first/is_second report the wrong variant", cx.what));
        }
        match lib!(u.borrow()) {
            ArcUnionBorrow::First(b) => {
                if second || b.get() as *const A as usize != addr_a || !b.get().ok(seed) {
                    viol::report(P12, "V.borrow", format!("{}: borrow() gave First at {:#x} (expected {} at {:#x})", cx.what, b.get() as *const A as usize, if second { "Second" } else { "First" }, if second { addr_b } else { addr_a }));
                }
            }
            ArcUnionBorrow::Second(b) => {
                if !second || b.get() as *const B as usize != addr_b || !b.get().ok(seed ^ 0x77) {
                    viol::report(P12, "V.borrow", format!("{}: borrow() gave Second at {:#x} (expected {} at {:#x})", cx.what, b.get() as *const B as usize, if second { "Second" } else { "First" }, if second { addr_b } else { addr_a }));
                }
            }
        }
        if lib!(u.as_first()).is_some() == second || lib!(u.as_second()).is_some() != second {
            viol::report(P12, "V.variant", format!("{}: as_first/as_second report the wrong variant", cx.what));
        }
        let c = ArcUnion::strong_count(u);
        if c != owners {
            viol::report(&["C12", "C04"], "N.count", format!("{}: ArcUnion::strong_count {} but {} owning handles exist", cx.what, c, owners));
        }
    };
    {
        let o = if second { owners_b } else { owners_a };
        for u in &unions {
            check(cx, u, o);
        }
    }
    for op in p.ops.iter().take(24) {
        if viol::any() {
            break;
        }
        let own = if second { &mut owners_b } else { &mut owners_a };
        match pick(op[0], 7) {
            0 if !unions.is_empty() && unions.len() < 5 => {
                let i = pick(op[1], unions.len());
                let c = lib!(unions[i].clone());
                *own += 1;
                union_clones += 1;
                unions.push(c);
            }
            1 if unions.len() > 1 || (unions.len() == 1 && op[2] > 200) => {
                let i = pick(op[1], unions.len());
                let u = unions.remove(i);
                lib!(drop(u));
                *own -= 1;
            }
            2 if !unions.is_empty() && plain_a.len() + plain_b.len() < 6 => {
                let i = pick(op[1], unions.len());
                if second {
                    if let Some(b) = lib!(unions[i].as_second()) {
                        plain_b.push(lib!(b.clone_arc()));
                        owners_b += 1;
                    }
                } else if let Some(b) = lib!(unions[i].as_first()) {
                    plain_a.push(lib!(b.clone_arc()));
                    owners_a += 1;
                }
            }
            3 => {
                // drop a plain arc (never the last owner of the non-union side unless generated so)
                if second && plain_b.len() > 0 {
                    let i = pick(op[1], plain_b.len());
                    lib!(drop(plain_b.remove(i)));
                    owners_b -= 1;
                } else if !second && plain_a.len() > 0 {
                    let i = pick(op[1], plain_a.len());
                    lib!(drop(plain_a.remove(i)));
                    owners_a -= 1;
                }
            }
            4 if unions.len() >= 1 => {
                // comparisons
                let i = pick(op[1], unions.len());
                let j = pick(op[2], unions.len());
                if !ArcUnion::ptr_eq(&unions[i], &unions[j]) {
                    viol::report(P12, "V.ptr-eq", format!("{}: two unions holding the same allocation are not ptr_eq", cx.what));
                }
                // a union of the other variant never compares equal
                let other: ArcUnion<A, B> = if second { lib!(ArcUnion::from_first(Arc::new(A::pat(seed)))) } else { lib!(ArcUnion::from_second(Arc::new(B::pat(seed ^ 0x77)))) };
                if lib!(unions[i] == other) || lib!(other == unions[i]) {
                    viol::report(P12, "V.eq-across-variants", format!("{}: unions holding different variants compare equal", cx.what));
                }
                if ArcUnion::ptr_eq(&unions[i], &other) {
                    viol::report(P12, "V.ptr-eq", format!("{}: unions of different allocations are ptr_eq", cx.what));
                }
                lib!(drop(other));
            }
            5 if !unions.is_empty() => {
                // move the union around
                let i = pick(op[1], unions.len());
                let u = unions.remove(i);
                let b = Box::new(Some(u));
                unions.push(b.unwrap());
            }
            _ => {}
        }
        let o = if second { owners_b } else { owners_a };
        for u in &unions {
            check(cx, u, o);
        }
        for a in &plain_a {
            if Arc::count(a) != owners_a || !a.ok(seed) {
                viol::report(&["C12", "C04"], "N.count", format!("{}: plain Arc<A> count {} / contents wrong (owners {})", cx.what, Arc::count(a), owners_a));
            }
        }
        for b in &plain_b {
            if Arc::count(b) != owners_b || !b.ok(seed ^ 0x77) {
                viol::report(&["C12", "C04"], "N.count", format!("{}: plain Arc<B> count {} / contents wrong (owners {})", cx.what, Arc::count(b), owners_b));
            }
        }
        if viol::any() {
            break;
        }
    }
    // release: plain arcs of the union's side first, so that a union is the last owner
    let union_side_plain = if second { plain_b.len() } else { plain_a.len() };
    let _ = union_side_plain;
    lib!(drop(plain_a));
    lib!(drop(plain_b));
    let last_is_union = !unions.is_empty();
    while let Some(u) = unions.pop() {
        lib!(drop(u));
    }
    cx.union_nt = last_is_union && union_clones >= 1 && (second || A::ALIGN == B::ALIGN && A::N == B::N || A::ALIGN == 1 || B::ALIGN == 1 || A::N == 0 || B::N == 0);
    cx.release_differs = true;
    released(cx, &bl_a);
    let _ = bl_b;
}

// ------------------------------------------------------------------------------------
// family 6: ArcUnion<E, E> — both variants over ONE allocation
// ------------------------------------------------------------------------------------
fn fam_union_same<E: Shape>(cx: &mut Ctx, p: &ByteCase) {
    let seed = p.p(4);
    cx.what = format!("union<E,E> (E align {} n {}) first and second variant over one allocation", E::ALIGN, E::N);
    let a = lib!(Arc::new(E::pat(seed)));
    let addr = Arc::as_ptr(&a) as usize;
    let f: ArcUnion<E, E> = lib!(ArcUnion::from_first(a.clone()));
    let s2: ArcUnion<E, E> = lib!(ArcUnion::from_second(a.clone()));
    let f2 = lib!(f.clone());
    if !f.is_first() || f.is_second() || s2.is_first() || !s2.is_second() {
        viol::report(P12, "V.variant", format!("{}: variants confused", cx.what));
    }
    if lib!(f == s2) || lib!(s2 == f) || !lib!(f == f2) {
        viol::report(P12, "V.eq-across-variants", format!("{}: First(x) == Second(x) answered true (or First(x) != its clone)", cx.what));
    }
    if ArcUnion::ptr_eq(&f, &s2) || ArcUnion::ptr_eq(&s2, &f) || !ArcUnion::ptr_eq(&f, &f2) {
        viol::report(P12, "V.ptr-eq", format!("{}: a First and a Second union are reported pointer-equal (or a First and its clone are not)", cx.what));
    }
    let (bf, bs) = (lib!(f.as_first()), lib!(s2.as_second()));
    if bf.map(|b| b.get() as *const E as usize) != Some(addr) || bs.map(|b| b.get() as *const E as usize) != Some(addr) || lib!(f.as_second()).is_some() || lib!(s2.as_first()).is_some() {
        viol::report(P12, "V.borrow", format!("{}: as_first / as_second do not expose the allocation at {:#x}", cx.what, addr));
    }
    for (n, c) in [("first", ArcUnion::strong_count(&f)), ("second", ArcUnion::strong_count(&s2)), ("plain", Arc::count(&a))] {
        if c != 4 {
            viol::report(&["C12", "C04"], "N.count", format!("{}: {} handle reports {} owners (expected 4)", cx.what, n, c));
        }
    }
    // drop in a generated order; the last owner is a union of a generated variant
    let order = p.p(5) % 4;
    match order {
        0 => {
            lib!(drop(a));
            lib!(drop(f));
            lib!(drop(f2));
            lib!(drop(s2));
        }
        1 => {
            lib!(drop(s2));
            lib!(drop(a));
            lib!(drop(f2));
            lib!(drop(f));
        }
        2 => {
            lib!(drop(f));
            lib!(drop(s2));
            lib!(drop(f2));
            lib!(drop(a));
        }
        _ => {
            lib!(drop(f2));
            lib!(drop(f));
            lib!(drop(a));
            lib!(drop(s2));
        }
    }
    cx.union_nt = true;
    cx.release_differs = true;
    if !alloc::live_blocks().is_empty() {
        viol::report(&["C12", "C01"], "F.leak", format!("{}: blocks still allocated after every handle was dropped", cx.what));
    }
}

// ------------------------------------------------------------------------------------
// dispatch over the static matrix
// ------------------------------------------------------------------------------------
pub type H0 = S<A1, 0>;
pub type H1 = S<A1, 1>;
pub type H2 = S<A2, 6>;
pub type H3 = S<A4, 4>;
pub type H4 = S<A8, 8>;
pub type H5 = S<A8, 24>;
pub type H6 = S<A16, 16>;
pub type H7 = S<A64, 64>;
/// zero-sized headers whose alignment exceeds the count word's (and most elements')
pub type H8 = S<A64, 0>;
pub type H9 = S<A16, 0>;

pub type E0 = S<A1, 0>;
pub type E1 = S<A1, 1>;
pub type E2 = S<A1, 3>;
pub type E3 = S<A2, 2>;
pub type E4 = S<A2, 6>;
pub type E5 = S<A4, 4>;
pub type E6 = S<A4, 12>;
pub type E7 = S<A8, 8>;
pub type E8 = S<A8, 24>;
pub type E9 = S<A16, 16>;
pub type E10 = S<A32, 32>;
pub type E11 = S<A64, 0>;
/// alignments beyond one byte's worth (an offset kept in a u8 truncates) and a page
pub type E12 = S<A256, 256>;
pub type E13 = S<A4096, 4096>;

fn run_pair<H: Shape, E: Shape>(cx: &mut Ctx, p: &ByteCase, fams: &[u8]) {
    let f = fams[pick(p.p(3), fams.len())];
    cx.over_or_zst_or_padded = H::ALIGN > 8 || E::ALIGN > 8 || E::N == 0 || H::N == 0 || (E::N % H::ALIGN.max(1) != 0) || (H::N % E::ALIGN.max(1) != 0);
    match f {
        0 => fam_sized::<E>(cx, p),
        1 => fam_hs::<H, E>(cx, p, false),
        2 => fam_hs::<H, E>(cx, p, true),
        3 => fam_slice::<E>(cx, p),
        5 => fam_str::<H>(cx, p),
        6 => fam_union_same::<E>(cx, p),
        _ => fam_union::<H, E>(cx, p),
    }
}

macro_rules! dispatch_e {
    ($cx:expr, $p:expr, $fams:expr, $h:ty, $ei:expr) => {
        match $ei {
            0 => run_pair::<$h, E0>($cx, $p, $fams),
            1 => run_pair::<$h, E1>($cx, $p, $fams),
            2 => run_pair::<$h, E2>($cx, $p, $fams),
            3 => run_pair::<$h, E3>($cx, $p, $fams),
            4 => run_pair::<$h, E4>($cx, $p, $fams),
            5 => run_pair::<$h, E5>($cx, $p, $fams),
            6 => run_pair::<$h, E6>($cx, $p, $fams),
            7 => run_pair::<$h, E7>($cx, $p, $fams),
            8 => run_pair::<$h, E8>($cx, $p, $fams),
            9 => run_pair::<$h, E9>($cx, $p, $fams),
            10 => run_pair::<$h, E10>($cx, $p, $fams),
            11 => run_pair::<$h, E11>($cx, $p, $fams),
            12 => run_pair::<$h, E12>($cx, $p, $fams),
            _ => run_pair::<$h, E13>($cx, $p, $fams),
        }
    };
}

pub struct MatrixEngine {
    pub prop: &'static str,
    /// families this instance draws from
    pub fams: Vec<u8>,
}

impl MatrixEngine {
    pub fn new(prop: &'static str) -> Self {
        let fams = match prop {
            "C12" => vec![4, 4, 4, 6],
            "C11" => vec![0, 0, 0, 1, 2, 2, 3, 5],
            "C09" => vec![0],
            _ => vec![0, 1, 2, 3, 4, 5],
        };
        MatrixEngine { prop, fams }
    }
}

impl Engine for MatrixEngine {
    fn name(&self) -> String {
        format!("matrix/{}", self.prop)
    }
    fn params_len(&self) -> usize {
        16
    }
    fn ops_range(&self) -> (usize, usize) {
        if self.prop == "C12" {
            (0, 24)
        } else {
            (0, 0)
        }
    }
    fn run(&self, case: &ByteCase, trace: bool) -> CaseReport {
        let _ = alloc::case_end();
        let _ = viol::take();
        let mut cx = Ctx { what: String::new(), trace: if trace { Some(vec![]) } else { None }, over_or_zst_or_padded: false, release_differs: false, moved_between: false, union_nt: false, lens: 0 };
        let hi = pick(case.p(0), 10);
        let ei = pick(case.p(1), 14);
        let r = catch_unwind(AssertUnwindSafe(|| match hi {
            0 => dispatch_e!(&mut cx, case, &self.fams, H0, ei),
            1 => dispatch_e!(&mut cx, case, &self.fams, H1, ei),
            2 => dispatch_e!(&mut cx, case, &self.fams, H2, ei),
            3 => dispatch_e!(&mut cx, case, &self.fams, H3, ei),
            4 => dispatch_e!(&mut cx, case, &self.fams, H4, ei),
            5 => dispatch_e!(&mut cx, case, &self.fams, H5, ei),
            6 => dispatch_e!(&mut cx, case, &self.fams, H6, ei),
            7 => dispatch_e!(&mut cx, case, &self.fams, H7, ei),
            8 => dispatch_e!(&mut cx, case, &self.fams, H8, ei),
            _ => dispatch_e!(&mut cx, case, &self.fams, H9, ei),
        }));
        if r.is_err() {
            viol::report(&["C05", "C11", "C12"], "M.panic", format!("{}: unexpected panic", cx.what));
        }
        let viols = viol::take();
        let _ = alloc::case_end();
        let nontrivial = match self.prop {
            "C12" => cx.union_nt,
            "C11" => cx.over_or_zst_or_padded && (cx.moved_between || cx.release_differs),
            _ => cx.over_or_zst_or_padded && cx.release_differs,
        };
        let mut labels: Vec<&'static str> = vec![];
        if cx.over_or_zst_or_padded {
            labels.push("shape:over-aligned|zst|padded");
        }
        if cx.release_differs {
            labels.push("release-path!=constructing-kind");
        }
        if cx.lens >= 16 {
            labels.push("len>=16");
        }
        if cx.what.starts_with("thin") {
            labels.push("family:thin");
        } else if cx.what.starts_with("hs") {
            labels.push("family:header-slice");
        } else if cx.what.starts_with("slice") {
            labels.push("family:slice");
        } else if cx.what.starts_with("str") {
            labels.push("family:str");
        } else if cx.what.starts_with("union") {
            labels.push("family:union");
        } else {
            labels.push("family:sized");
        }
        let mut tr = cx.trace.take().unwrap_or_default();
        if trace && tr.is_empty() {
            tr.push(cx.what.clone());
        }
        CaseReport { viols, nontrivial, labels, trace: tr }
    }
}
