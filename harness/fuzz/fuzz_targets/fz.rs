#![no_main]
//! One libFuzzer target for every byte-driven engine: FZ_PROP / FZ_JOB select the engine from the
//! property's plan; the input bytes are cut into the common case format (parameter block +
//! 4-byte records); the semantic oracle runs inside the target and a relevant violation is a crash.
use libfuzzer_sys::fuzz_target;
use rt::case::ByteCase;
use rt::run::{Engine, Tier};
use std::sync::OnceLock;

struct Sel {
    prop: String,
    eng: Box<dyn Engine>,
}
static SEL: OnceLock<Sel> = OnceLock::new();

fn sel() -> &'static Sel {
    SEL.get_or_init(|| {
        rt::run::silence_panics_except_violation();
        let prop = std::env::var("FZ_PROP").unwrap_or_else(|_| "C01".into());
        let job: usize = std::env::var("FZ_JOB").ok().and_then(|s| s.parse().ok()).unwrap_or(0);
        rt::viol::set_known(rt::run::load_known(&prop));
        let plan = tvlib::plans::plan(&prop, Tier::Thorough).expect("plan");
        let mut jobs: Vec<_> = plan.jobs.into_iter().filter(|j| j.flavour == "all" && j.engine.enum_len().is_none()).collect();
        let j = jobs.remove(job % jobs.len());
        eprintln!("fz: property {} engine {}", prop, j.engine.name());
        Sel { prop, eng: j.engine }
    })
}

fuzz_target!(|data: &[u8]| {
    let s = sel();
    let case = ByteCase::from_bytes(data, s.eng.params_len(), s.eng.ops_range().1);
    let rep = s.eng.run(&case, false);
    if let Some(v) = rep.viols.iter().find(|v| v.props.iter().any(|p| *p == s.prop)) {
        eprintln!("VIOLATION-IN-FUZZ property={} engine={} sig={} :: {}", s.prop, s.eng.name(), v.sig, v.msg);
        eprintln!("CASE {}", case.to_hex());
        std::process::abort();
    }
});
