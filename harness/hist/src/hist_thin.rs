//! History engine, thin world: ThinArc<H,T> and every fat / protected / raw / unique view of
//! the same allocations (header + slice of identity-tracked elements), including
//! allocations whose recorded length deliberately disagrees with the slice length and
//! with_arc_mut callbacks that mutate, replace, swap or panic.

use std::collections::BTreeSet;
use std::ffi::c_void;
use std::marker::PhantomData;
use std::panic::{catch_unwind, AssertUnwindSafe};

use rt::alloc::{self, track, Block};
use rt::case::{pick, ByteCase};
use rt::run::{CaseReport, Engine};
use rt::tok::{self, Peek, State as TokState};
use rt::viol;
use triomphe::{Arc, HeaderSlice, HeaderSliceWithLengthProtected, HeaderWithLength, ThinArc, UniqueArc};

use crate::hist_sized::{SizedPayload, PANY};

pub type Unch<Hd, El> = HeaderSlice<HeaderWithLength<Hd>, [El]>;
pub type Fat<Hd, El> = Arc<Unch<Hd, El>>;
pub type Prot<Hd, El> = Arc<HeaderSliceWithLengthProtected<Hd, El>>;

#[derive(Clone, Copy, Debug, PartialEq, Eq, PartialOrd, Ord)]
pub enum TK {
    Thin,
    Fat,
    Prot,
    RawThin,
    RawFat,
    Uniq,
    Swap,
}

pub enum TH<Hd: SizedPayload, El: SizedPayload> {
    Thin(ThinArc<Hd, El>),
    Fat(Fat<Hd, El>),
    Prot(Prot<Hd, El>),
    RawThin(*const c_void),
    RawFat(*const Unch<Hd, El>),
    Uniq(UniqueArc<Unch<Hd, El>>),
    #[cfg(feature = "arc-swap")]
    Swap(Box<arc_swap::ArcSwapAny<ThinArc<Hd, El>>>),
    Gone,
}

impl<Hd: SizedPayload, El: SizedPayload> TH<Hd, El> {
    pub(crate) fn kind(&self) -> TK {
        match self {
            TH::Thin(_) => TK::Thin,
            TH::Fat(_) => TK::Fat,
            TH::Prot(_) => TK::Prot,
            TH::RawThin(_) => TK::RawThin,
            TH::RawFat(_) => TK::RawFat,
            TH::Uniq(_) => TK::Uniq,
            #[cfg(feature = "arc-swap")]
            TH::Swap(_) => TK::Swap,
            TH::Gone => TK::Thin,
        }
    }
}

#[derive(Clone, Debug)]
pub(crate) struct View {
    pub(crate) hdr: Peek,
    hdr_addr: usize,
    rec_len: usize,
    els: Vec<Peek>,
    slice_addr: usize,
    pub(crate) count: Option<usize>,
    heap: Option<usize>,
}

fn view_unch<Hd: SizedPayload, El: SizedPayload>(u: &Unch<Hd, El>) -> View {
    View {
        hdr: u.header.header.peekp(),
        hdr_addr: &u.header.header as *const Hd as usize,
        rec_len: u.header.length,
        els: u.slice.iter().map(|e| e.peekp()).collect(),
        slice_addr: u.slice.as_ptr() as usize,
        count: None,
        heap: None,
    }
}

pub(crate) fn view<Hd: SizedPayload, El: SizedPayload>(h: &TH<Hd, El>) -> Option<View> {
    Some(match h {
        TH::Thin(t) => {
            if t.header.length > 1 << 20 {
                viol::report(&["C10", "C01"], "T.len-garbage", format!("a ThinArc's recorded length reads {:#x} (freed or corrupted allocation)", t.header.length));
                return None;
            }
            let mut v = view_unch::<Hd, El>(&**t);
            v.count = Some(ThinArc::strong_count(t));
            v.heap = Some(t.heap_ptr() as usize);
            if t.ptr() as usize != t.heap_ptr() as usize || t.as_ptr() as usize != t.heap_ptr() as usize {
                viol::report(&["C11"], "P.thin-ptrs", format!("ThinArc::ptr {:p} / as_ptr {:p} / heap_ptr {:p} disagree", t.ptr(), t.as_ptr(), t.heap_ptr()));
            }
            v
        }
        TH::Fat(a) => {
            let mut v = view_unch::<Hd, El>(&**a);
            v.count = Some(Arc::count(a));
            v.heap = Some(a.heap_ptr() as usize);
            v
        }
        TH::Prot(a) => {
            let mut v = View {
                hdr: a.header().peekp(),
                hdr_addr: a.header() as *const Hd as usize,
                rec_len: a.length(),
                els: a.slice().iter().map(|e| e.peekp()).collect(),
                slice_addr: a.slice().as_ptr() as usize,
                count: Some(Arc::count(a)),
                heap: Some(a.heap_ptr() as usize),
            };
            if Arc::strong_count(a) != v.count.unwrap() {
                v.count = Some(usize::MAX);
            }
            v
        }
        TH::RawThin(_) => return None,
        TH::RawFat(p) => view_unch::<Hd, El>(unsafe { &**p }),
        TH::Uniq(u) => view_unch::<Hd, El>(&**u),
        #[cfg(feature = "arc-swap")]
        TH::Swap(s) => {
            let g = s.load();
            let mut v = view_unch::<Hd, El>(&**g);
            v.count = Some(ThinArc::strong_count(&g));
            v
        }
        TH::Gone => return None,
    })
}

#[derive(Clone, Debug)]
struct TAlloc {
    owners: u32,
    hdr: (u32, u64),
    els: Vec<(u32, u64)>,
    rec_len: usize,
    block: Block,
    hdr_addr: usize,
    slice_addr: usize,
    alive: bool,
    died_step: u32,
    kinds: BTreeSet<TK>,
}

#[derive(Default, Clone, Debug)]
struct TFacts {
    thin_fat_same_alloc_len2: bool,
    into_thin_wrong_len: bool,
    with_arc_mut_replace: bool,
    with_arc_mut_panic: bool,
    conversions: u32,
    uniq_decline_then_success: bool,
    uniq_declined: BTreeSet<usize>,
    count_in_cb: bool,
    raw_roundtrip: bool,
    drop_panics: u32,
    clone_froms: u32,
}

struct TSlot<Hd: SizedPayload, El: SizedPayload> {
    h: TH<Hd, El>,
    alloc: usize,
}

struct TSt<Hd: SizedPayload, El: SizedPayload> {
    slots: Vec<TSlot<Hd, El>>,
    allocs: Vec<TAlloc>,
    next_val: u64,
    step: u32,
    facts: TFacts,
    trace: Option<Vec<String>>,
}

const MAXS: usize = 10;

/// slice length from a byte: mostly 0..8, sometimes around a power-of-two / integer-width boundary
fn thin_len(c: u8) -> usize {
    const BIG: [usize; 10] = [9, 15, 16, 17, 31, 64, 255, 256, 257, 300];
    if c < 216 {
        (c as usize * 9) / 216
    } else {
        BIG[((c - 216) as usize * BIG.len()) / 40]
    }
}
const PT: &[&str] = &["C10"];
const PL: &[&str] = &["C01"];
const PN: &[&str] = &["C04"];
const PU: &[&str] = &["C03"];
const PP: &[&str] = &["C11"];

macro_rules! lib {
    ($e:expr) => {
        track(|| $e).0
    };
}

#[derive(Clone, Copy, Debug, PartialEq, Eq)]
enum TOp {
    Read,
    Create,
    Clone,
    Convert,
    Release,
    WithArcMut,
    IntoThinWrong,
    Uniq,
    Move,
    Compare,
}

fn tprofile(prop: &str) -> Vec<(TOp, u32)> {
    use TOp::*;
    match prop {
        "C10" => vec![(Read, 1), (Create, 3), (Clone, 5), (Convert, 7), (Release, 4), (WithArcMut, 6), (IntoThinWrong, 2), (Uniq, 1), (Move, 1), (Compare, 1)],
        "C04" => vec![(Read, 1), (Create, 3), (Clone, 6), (Convert, 6), (Release, 4), (WithArcMut, 3), (IntoThinWrong, 1), (Uniq, 1), (Move, 2), (Compare, 5)],
        "C03" => vec![(Read, 1), (Create, 2), (Clone, 5), (Convert, 4), (Release, 4), (WithArcMut, 3), (IntoThinWrong, 1), (Uniq, 8), (Move, 1)],
        _ => vec![(Read, 1), (Create, 3), (Clone, 6), (Convert, 7), (Release, 5), (WithArcMut, 3), (IntoThinWrong, 1), (Uniq, 1), (Move, 2), (Compare, 1)],
    }
}

fn ttable(p: &[(TOp, u32)]) -> [TOp; 256] {
    let total: u32 = p.iter().map(|o| o.1).sum();
    let mut t = [TOp::Read; 256];
    let mut k = 0;
    let mut acc = p[0].1;
    for i in 0..256u32 {
        while k + 1 < p.len() && i * total >= acc * 256 {
            k += 1;
            acc += p[k].1;
        }
        t[i as usize] = p[k].0;
    }
    t
}

impl<Hd: SizedPayload, El: SizedPayload> TSt<Hd, El> {
    fn log(&mut self, f: impl FnOnce() -> String) {
        if let Some(t) = self.trace.as_mut() {
            let s = f();
            let l = format!("step {:3}: {}", self.step, s);
            rt::run::trace_stream(&l);
            t.push(l);
        }
    }
    fn fresh(&mut self) -> u64 {
        let v = self.next_val;
        self.next_val += 1;
        v
    }
    fn take(&mut self, i: usize) -> TH<Hd, El> {
        std::mem::replace(&mut self.slots[i].h, TH::Gone)
    }

    /// build a fat Arc with the given recorded length (may be wrong) from fresh Toks
    fn build_fat(&mut self, len: usize, rec: usize, via_vec: bool) -> (Fat<Hd, El>, alloc::Effects) {
        let hv = self.fresh();
        let vals: Vec<u64> = (0..len).map(|_| self.fresh()).collect();
        track(|| {
            let items: Vec<El> = vals.iter().map(|v| El::make(*v)).collect();
            let hdr = HeaderWithLength::new(Hd::make(hv), rec);
            if via_vec {
                Arc::from_header_and_vec(hdr, items)
            } else {
                Arc::from_header_and_iter(hdr, items.into_iter())
            }
        })
    }

    fn adopt(&mut self, h: TH<Hd, El>, how: &str) {
        let Some(v) = view(&h) else { return };
        let block = alloc::classify(v.hdr_addr).unwrap_or_else(Block::none);
        if block.seq == u32::MAX {
            viol::report(&["C05", "C10"], "F.no-block", format!("{}: header at {:#x} is in no tracked block", how, v.hdr_addr));
        }
        let kind = h.kind();
        let mut kinds = BTreeSet::new();
        kinds.insert(kind);
        let n = v.els.len();
        // geometry: everything inside the block, aligned
        let end = v.slice_addr + n * std::mem::size_of::<El>();
        if block.seq != u32::MAX && (v.hdr_addr < block.ptr + 8 || end > block.ptr + block.size) {
            viol::report(&["C05"], "F.does-not-fit", format!("{}: header {:#x} .. slice end {:#x} not inside block [{:#x},+{}]", how, v.hdr_addr, end, block.ptr, block.size));
        }
        if v.hdr_addr % std::mem::align_of::<Hd>() != 0 || v.slice_addr % std::mem::align_of::<El>() != 0 {
            viol::report(&["C05"], "F.misaligned", format!("{}: header {:#x} / slice {:#x} misaligned", how, v.hdr_addr, v.slice_addr));
        }
        self.allocs.push(TAlloc {
            owners: 1,
            hdr: (v.hdr.id, v.hdr.val),
            els: v.els.iter().map(|p| (p.id, p.val)).collect(),
            rec_len: v.rec_len,
            block,
            hdr_addr: v.hdr_addr,
            slice_addr: v.slice_addr,
            alive: true,
            died_step: 0,
            kinds,
        });
        let ai = self.allocs.len() - 1;
        let ns = self.slots.len();
        self.log(|| format!("create {} -> slot {} = {:?}(alloc #{}, len {}, recorded {})", how, ns, kind, ai, n, v.rec_len));
        self.slots.push(TSlot { h, alloc: ai });
    }

    fn released(&mut self, ai: usize) {
        let a = &mut self.allocs[ai];
        a.owners -= 1;
        if a.owners == 0 {
            a.alive = false;
            a.died_step = self.step;
        }
    }

    fn check_all(&mut self) {
        let mut thin_allocs = BTreeSet::new();
        let mut fat_allocs = BTreeSet::new();
        for (si, s) in self.slots.iter().enumerate() {
            let m = &self.allocs[s.alloc];
            let k = s.h.kind();
            if !m.alive {
                viol::report(PANY, "M.model", format!("harness bug: slot {} refers to dead alloc #{}", si, s.alloc));
                continue;
            }
            let Some(v) = view(&s.h) else { continue };
            if k == TK::Thin && m.els.len() >= 2 {
                thin_allocs.insert(s.alloc);
            }
            if (k == TK::Fat || k == TK::Prot) && m.els.len() >= 2 {
                fat_allocs.insert(s.alloc);
            }
            if v.els.len() != m.els.len() {
                viol::report(PT, "T.len", format!("slot {} ({:?}, alloc #{}): slice has {} elements but the allocation was built with {}", si, k, s.alloc, v.els.len(), m.els.len()));
                continue;
            }
            if v.rec_len != m.rec_len {
                viol::report(PT, "T.recorded-len", format!("slot {} ({:?}): recorded length {} but the model says {}", si, k, v.rec_len, m.rec_len));
            }
            if matches!(k, TK::Thin | TK::Prot | TK::Swap) && v.rec_len != v.els.len() {
                viol::report(PT, "T.len-invariant", format!("slot {} ({:?}): recorded length {} != slice length {}", si, k, v.rec_len, v.els.len()));
            }
            if !v.hdr.ok || (v.hdr.id, v.hdr.val) != m.hdr {
                viol::report(&["C01", "C10"], "L.value", format!("slot {} ({:?}, alloc #{}): header reads {:?}, model {:?}", si, k, s.alloc, v.hdr, m.hdr));
            }
            for (j, p) in v.els.iter().enumerate() {
                if !p.ok || (p.id, p.val) != m.els[j] {
                    viol::report(&["C01", "C10"], "L.value", format!("slot {} ({:?}, alloc #{}): element {} reads {:?}, model {:?}", si, k, s.alloc, j, p, m.els[j]));
                    break;
                }
            }
            if v.hdr_addr != m.hdr_addr || v.slice_addr != m.slice_addr {
                viol::report(
                    &["C10", "C11"],
                    "T.addr",
                    format!("slot {} ({:?}): header/slice at {:#x}/{:#x} but the allocation's are {:#x}/{:#x}", si, k, v.hdr_addr, v.slice_addr, m.hdr_addr, m.slice_addr),
                );
            }
            if let Some(c) = v.count {
                if c != m.owners as usize {
                    viol::report(PN, "N.count", format!("slot {} ({:?}, alloc #{}): count accessor reports {} but {} owning handles exist", si, k, s.alloc, c as isize, m.owners));
                }
            }
            if let Some(hp) = v.heap {
                if hp != m.block.ptr {
                    viol::report(PP, "P.heap-ptr", format!("slot {} ({:?}): heap_ptr {:#x} is not the block start {:#x}", si, k, hp, m.block.ptr));
                }
            }
        }
        if thin_allocs.intersection(&fat_allocs).next().is_some() {
            self.facts.thin_fat_same_alloc_len2 = true;
        }
        let mut alive = 0;
        for (ai, m) in self.allocs.iter().enumerate() {
            let bl = alloc::block_by_seq(m.block.seq);
            let ids: Vec<u32> = std::iter::once(m.hdr.0).chain(m.els.iter().map(|e| e.0)).collect();
            if m.alive {
                alive += 1;
                for id in ids {
                    if let Some(t) = tok::info(id) {
                        if t.state != TokState::Live {
                            viol::report(PL, "L.early-drop", format!("alloc #{} has {} owners but tok {} was destroyed at step {}", ai, m.owners, id, t.died));
                        }
                    }
                }
                if let Some(b) = bl {
                    if !b.live {
                        viol::report(PL, "L.early-free", format!("alloc #{} has {} owners but its block was freed at step {}", ai, m.owners, b.died));
                    }
                }
            } else {
                for id in ids {
                    if let Some(t) = tok::info(id) {
                        if t.state == TokState::Live {
                            viol::report(PL, "L.not-dropped", format!("alloc #{}: last owner released at step {} but tok {} was not destroyed", ai, m.died_step, id));
                        } else if t.died != m.died_step {
                            viol::report(PL, "L.drop-time", format!("alloc #{}: tok {} destroyed at step {} but the last owner was released at step {}", ai, id, t.died, m.died_step));
                        }
                    }
                }
                if let Some(b) = bl {
                    if b.live {
                        viol::report(PL, "L.not-freed", format!("alloc #{}: last owner released at step {} but its block is still allocated", ai, m.died_step));
                    }
                }
            }
        }
        let live = alloc::live_blocks().len();
        if live != alive {
            viol::report(&["C05", "C01"], "F.block-count", format!("{} tracked blocks live, model has {} live allocations", live, alive));
        }
    }

    fn step(&mut self, table: &[TOp; 256], op: [u8; 4]) {
        self.step += 1;
        alloc::set_step(self.step);
        let mut k = table[op[0] as usize];
        if self.slots.is_empty() {
            k = TOp::Create;
        }
        let i = pick(op[1], self.slots.len());
        match k {
            TOp::Read => {}
            TOp::Create => self.op_create(op[2], op[3]),
            TOp::Clone => self.op_clone(i, op[2]),
            TOp::Convert => self.op_convert(i, op[2]),
            TOp::Release => self.op_release(i, op[2], op[3]),
            TOp::WithArcMut => self.op_with_arc_mut(i, op[2], op[3]),
            TOp::IntoThinWrong => self.op_into_thin_wrong(op[2], op[3]),
            TOp::Uniq => self.op_uniq(i, op[2]),
            TOp::Compare => self.op_compare(i, op[2], op[3]),
            TOp::Move => {
                let j = pick(op[2], self.slots.len());
                self.slots.swap(i, j);
                let h = self.take(i);
                let b = Box::new(h);
                self.slots[i].h = *b;
            }
        }
        self.check_all();
    }

    fn op_create(&mut self, b: u8, c: u8) {
        if self.slots.len() >= MAXS {
            return;
        }
        let len = thin_len(c);
        // zero-sized elements are refused by the iterator / slice constructors (C06); from_header_and_vec takes them
        let variant = if El::ZST { 2 + 2 * (pick(b, 4) & 1) } else { pick(b, 4) };
        match variant {
            0 => {
                let hv = self.fresh();
                let vals: Vec<u64> = (0..len).map(|_| self.fresh()).collect();
                let (t, _e) = track(|| {
                    let items: Vec<El> = vals.iter().map(|v| El::make(*v)).collect();
                    ThinArc::from_header_and_iter(Hd::make(hv), items.into_iter())
                });
                self.adopt(TH::Thin(t), "ThinArc::from_header_and_iter");
            }
            1 => {
                let (a, _e) = self.build_fat(len, len, false);
                self.adopt(TH::Fat(a), "Arc::from_header_and_iter(HeaderWithLength)");
            }
            2 => {
                let (a, _e) = self.build_fat(len, len, true);
                self.adopt(TH::Fat(a), "Arc::from_header_and_vec(HeaderWithLength)");
            }
            4 => {
                let (a, _e) = self.build_fat(len, len, true);
                let t = lib!(Arc::into_thin(a));
                self.adopt(TH::Thin(t), "Arc::into_thin(from_header_and_vec)");
            }
            _ => {
                let (a, _e) = self.build_fat(len, len, false);
                let t = lib!(Arc::into_thin(a));
                self.adopt(TH::Thin(t), "Arc::into_thin(from_header_and_iter)");
            }
        }
    }

    fn op_clone(&mut self, i: usize, b: u8) {
        if self.slots.len() >= MAXS {
            return;
        }
        let kind = self.slots[i].h.kind();
        if b & 0x80 != 0 && matches!(kind, TK::Thin | TK::Fat | TK::Prot) {
            // Clone::clone_from (a provided method a handle type may override): slot i gives up its allocation
            // and becomes another owner of slot j's
            let n = self.slots.len();
            let start = pick(b & 0x7f, n);
            if let Some(j) = (0..n).map(|d| (start + d) % n).find(|&j| j != i && self.slots[j].h.kind() == kind) {
                let (ai, aj) = (self.slots[i].alloc, self.slots[j].alloc);
                let mut dst = self.take(i);
                match (&mut dst, &self.slots[j].h) {
                    (TH::Thin(d), TH::Thin(s)) => lib!(d.clone_from(s)),
                    (TH::Fat(d), TH::Fat(s)) => lib!(d.clone_from(s)),
                    (TH::Prot(d), TH::Prot(s)) => lib!(d.clone_from(s)),
                    _ => {}
                }
                self.slots[i].h = dst;
                self.slots[i].alloc = aj;
                if ai != aj {
                    self.allocs[aj].owners += 1;
                    self.allocs[aj].kinds.insert(kind);
                    self.released(ai);
                }
                self.facts.clone_froms += 1;
                self.log(|| format!("clone_from: slot {} ({:?}, alloc #{}) <- slot {} (alloc #{})", i, kind, ai, j, aj));
                return;
            }
        }
        let ai = self.slots[i].alloc;
        let owners = self.allocs[ai].owners as usize;
        let mut cb: Option<usize> = None;
        let (nh, how): (Option<TH<Hd, El>>, &'static str) = match &mut self.slots[i].h {
            TH::Thin(t) => match pick(b, 4) {
                0 => (Some(TH::Thin(lib!(t.clone()))), "ThinArc::clone"),
                1 => {
                    let (a, c) = lib!(t.with_arc(|a| {
                        let c = Arc::count(a);
                        (a.clone(), c)
                    }));
                    cb = Some(c);
                    (Some(TH::Fat(a)), "ThinArc::with_arc(|a| a.clone())")
                }
                2 => {
                    let (a, c) = lib!(t.with_arc_mut(|a| {
                        let c = Arc::strong_count(a);
                        (a.clone(), c)
                    }));
                    cb = Some(c);
                    (Some(TH::Prot(a)), "ThinArc::with_arc_mut(|a| a.clone())")
                }
                _ => {
                    let t2 = lib!(t.with_arc(|a| Arc::into_thin(a.clone())));
                    (Some(TH::Thin(t2)), "ThinArc::with_arc(|a| Arc::into_thin(a.clone()))")
                }
            },
            TH::Fat(a) => (Some(TH::Fat(lib!(a.clone()))), "Arc<HeaderSlice<HeaderWithLength>>::clone"),
            TH::Prot(a) => (Some(TH::Prot(lib!(a.clone()))), "Arc<Protected>::clone"),
            #[cfg(feature = "arc-swap")]
            TH::Swap(s) => (Some(TH::Thin(s.load_full())), "ArcSwapAny<ThinArc>::load_full"),
            _ => (None, "n/a"),
        };
        if let Some(c) = cb {
            self.facts.count_in_cb = true;
            if c != owners {
                viol::report(PN, "N.count-in-callback", format!("{}: count {} inside the callback but {} owning handles exist", how, c, owners));
            }
        }
        if let Some(h) = nh {
            let nk = h.kind();
            self.allocs[ai].owners += 1;
            self.allocs[ai].kinds.insert(nk);
            let ns = self.slots.len();
            self.log(|| format!("clone slot {} ({:?}, alloc #{}) via {} -> slot {} ({:?})", i, kind, ai, how, ns, nk));
            self.slots.push(TSlot { h, alloc: ai });
        }
    }

    fn op_convert(&mut self, i: usize, b: u8) {
        let ai = self.slots[i].alloc;
        let consistent = self.allocs[ai].rec_len == self.allocs[ai].els.len();
        let owners = self.allocs[ai].owners;
        let h = self.take(i);
        let from = h.kind();
        let mut dropped = false;
        let (nh, how): (TH<Hd, El>, &'static str) = match h {
            TH::Thin(t) => {
                let n = if cfg!(feature = "arc-swap") { 4 } else { 3 };
                match pick(b, n) {
                    0 => (TH::Fat(lib!(Arc::from_thin(t))), "Arc::from_thin"),
                    1 => (TH::Prot(lib!(Arc::protected_from_thin(t))), "Arc::protected_from_thin"),
                    2 => {
                        let expect = t.as_ptr();
                        let p = lib!(t.into_raw());
                        if p != expect {
                            viol::report(PP, "P.into-raw", "ThinArc::into_raw differs from as_ptr".into());
                        }
                        self.facts.raw_roundtrip = true;
                        (TH::RawThin(p), "ThinArc::into_raw")
                    }
                    _ => {
                        #[cfg(feature = "arc-swap")]
                        {
                            (TH::Swap(Box::new(arc_swap::ArcSwapAny::new(t))), "ArcSwapAny::new(ThinArc)")
                        }
                        #[cfg(not(feature = "arc-swap"))]
                        {
                            (TH::Thin(t), "noop")
                        }
                    }
                }
            }
            TH::Fat(a) => match pick(b, 3) {
                0 => {
                    // into_thin: must panic iff the recorded length is wrong, and then release the Arc
                    let r = catch_unwind(AssertUnwindSafe(|| lib!(Arc::into_thin(a))));
                    match r {
                        Ok(t) => {
                            if !consistent {
                                viol::report(PT, "T.into-thin-accepted", format!("Arc::into_thin accepted an Arc whose recorded length {} != slice length {}", self.allocs[ai].rec_len, self.allocs[ai].els.len()));
                            }
                            (TH::Thin(t), "Arc::into_thin")
                        }
                        Err(_) => {
                            if consistent {
                                viol::report(PT, "T.into-thin-refused", "Arc::into_thin panicked on an Arc whose recorded length is correct".into());
                            }
                            self.facts.into_thin_wrong_len = true;
                            dropped = true;
                            // the refusal must still release the Arc it consumed
                            let left = owners - 1;
                            if left == 0 {
                                let m = &self.allocs[ai];
                                let still = alloc::block_by_seq(m.block.seq).map(|b| b.live).unwrap_or(false);
                                let hdr_live = tok::info(m.hdr.0).map(|t| t.state == TokState::Live).unwrap_or(false);
                                if still || hdr_live {
                                    viol::report(PT, "T.into-thin-panic-release", format!("Arc::into_thin refused a wrong recorded length but did not release the sole-owner Arc it consumed (block still allocated: {}, header alive: {})", still, hdr_live));
                                }
                            } else {
                                for s in self.slots.iter() {
                                    if s.alloc == ai {
                                        if let Some(v) = view(&s.h) {
                                            if let Some(c) = v.count {
                                                if c != left as usize {
                                                    viol::report(PT, "T.into-thin-panic-release", format!("Arc::into_thin refused a wrong recorded length; the allocation should have {} owners left but a co-owner reports {}", left, c));
                                                }
                                            }
                                        }
                                    }
                                }
                            }
                            (TH::Gone, "Arc::into_thin -> panic (recorded length mismatch), Arc released")
                        }
                    }
                }
                1 => {
                    let p = lib!(Arc::into_raw(a));
                    self.facts.raw_roundtrip = true;
                    (TH::RawFat(p), "Arc::into_raw (fat)")
                }
                _ => match lib!(Arc::try_unique(a)) {
                    Ok(u) => {
                        if owners != 1 {
                            viol::report(PU, "U.verdict", format!("try_unique succeeded with {} owners", owners));
                        }
                        (TH::Uniq(u), "Arc::try_unique -> Ok")
                    }
                    Err(a) => {
                        if owners == 1 {
                            viol::report(PU, "U.verdict", "try_unique declined on a sole owner".into());
                        }
                        (TH::Fat(a), "Arc::try_unique -> Err")
                    }
                },
            },
            TH::Prot(a) => (TH::Thin(lib!(Arc::protected_into_thin(a))), "Arc::protected_into_thin"),
            TH::RawThin(p) => (TH::Thin(lib!(unsafe { ThinArc::from_raw(p) })), "ThinArc::from_raw"),
            TH::RawFat(p) => (TH::Fat(lib!(unsafe { Arc::from_raw(p) })), "Arc::from_raw (fat)"),
            TH::Uniq(u) => (TH::Fat(lib!(u.shareable())), "UniqueArc::shareable"),
            #[cfg(feature = "arc-swap")]
            TH::Swap(s) => (TH::Thin(s.into_inner()), "ArcSwapAny::into_inner"),
            TH::Gone => (TH::Gone, "gone"),
        };
        self.facts.conversions += 1;
        if dropped {
            self.released(ai);
            self.slots.remove(i);
            self.log(|| format!("convert slot {} (alloc #{}) {:?}: {}", i, ai, from, how));
        } else {
            let to = nh.kind();
            self.allocs[ai].kinds.insert(to);
            self.slots[i].h = nh;
            self.log(|| format!("convert slot {} (alloc #{}) {:?} -> {:?} via {}", i, ai, from, to, how));
        }
    }

    fn op_release(&mut self, i: usize, b: u8, c: u8) {
        let ai = self.slots[i].alloc;
        let h = self.take(i);
        let kind = h.kind();
        // one release in four runs with a panic armed inside the k-th payload destructor (header = 1, elements
        // follow): everything still counts as destroyed once (the rest is dropped while unwinding) and the block
        // must still be returned, as for Box<HeaderSlice<..>>
        let dp = (b & 0xC0) == 0xC0 && kind != TK::Swap;
        if dp {
            let n = self.allocs[ai].els.len() + 1;
            tok::drop_panic_at(1 + pick(c, n.min(6)) as i64);
        }
        #[cfg(feature = "arc-swap")]
        let h = match h {
            TH::Swap(s) => {
                drop(s);
                TH::Gone
            }
            o => o,
        };
        let r = lib!(catch_unwind(AssertUnwindSafe(move || match h {
            TH::RawThin(p) => drop(unsafe { ThinArc::<Hd, El>::from_raw(p) }),
            TH::RawFat(p) => drop(unsafe { Arc::from_raw(p) }),
            other => drop(other),
        })));
        tok::drop_panic_at(0);
        let unwound = r.is_err();
        drop(r);
        if unwound {
            self.facts.drop_panics += 1;
        }
        self.released(ai);
        self.slots.remove(i);
        let o = self.allocs[ai].owners;
        self.log(|| format!("release slot {} ({:?}, alloc #{}){}; owners now {}", i, kind, ai, if unwound { " (a payload destructor panicked)" } else { "" }, o));
    }

    /// A fat Arc whose recorded length is wrong is created and fed to into_thin right away.
    fn op_into_thin_wrong(&mut self, b: u8, c: u8) {
        if self.slots.len() >= MAXS {
            return;
        }
        let len = thin_len(c);
        let rec = match pick(b, 5) {
            0 => len + 1,
            1 => len.wrapping_sub(1),
            2 => 0,
            3 => len + 1000,
            _ => usize::MAX,
        };
        let (a, _e) = self.build_fat(len, rec, b & 1 == 1 || El::ZST);
        self.adopt(TH::Fat(a), "Arc::from_header_and_iter/vec(HeaderWithLength{wrong length})");
        let i = self.slots.len() - 1;
        if rec != len {
            // keep it around as a fat handle half of the time (clones, drops later), else convert now
            if c & 1 == 0 {
                self.op_convert(i, 0);
            }
        }
    }

    fn op_with_arc_mut(&mut self, i0: usize, b: u8, c: u8) {
        // needs a ThinArc slot
        let n = self.slots.len();
        let Some(i) = (0..n).map(|d| (i0 + d) % n).find(|&j| self.slots[j].h.kind() == TK::Thin) else { return };
        let ai = self.slots[i].alloc;
        let owners = self.allocs[ai].owners;
        let which = pick(b, 7);
        match which {
            0 | 1 => {
                // mutate header and slice through get_mut / get_unique (sole owner only)
                let nv = self.fresh();
                let nel: Vec<u64> = (0..self.allocs[ai].els.len()).map(|_| self.fresh()).collect();
                let TH::Thin(t) = &mut self.slots[i].h else { unreachable!() };
                let granted = lib!(t.with_arc_mut(|a| {
                    let target = if which == 0 { Arc::get_mut(a) } else { Arc::get_unique(a).map(|u| &mut **u) };
                    match target {
                        Some(p) => {
                            p.header_mut().setp(nv);
                            for (e, v) in p.slice_mut().iter_mut().zip(nel.iter()) {
                                e.setp(*v);
                            }
                            true
                        }
                        None => false,
                    }
                }));
                if granted != (owners == 1) {
                    viol::report(PU, "U.verdict", format!("with_arc_mut + {} granted={} but {} owning handles exist (alloc #{})", if which == 0 { "get_mut" } else { "get_unique" }, granted, owners, ai));
                }
                if granted {
                    let m = &mut self.allocs[ai];
                    if !Hd::ZST {
                        m.hdr.1 = nv;
                    }
                    if !El::ZST {
                        for (e, v) in m.els.iter_mut().zip(nel.iter()) {
                            e.1 = *v;
                        }
                    }
                    if self.facts.uniq_declined.contains(&ai) {
                        self.facts.uniq_decline_then_success = true;
                    }
                } else {
                    self.facts.uniq_declined.insert(ai);
                }
                self.log(|| format!("with_arc_mut(get_mut/get_unique + write) on slot {} (alloc #{}, {} owners) -> granted {}", i, ai, owners, granted));
            }
            2 | 3 | 4 => {
                // replace the Arc by a fresh one (2), then panic (3), or panic before replacing (4)
                let len = thin_len(c);
                let hv = self.fresh();
                let vals: Vec<u64> = (0..len).map(|_| self.fresh()).collect();
                let (fresh, _e): (Prot<Hd, El>, _) = track(|| {
                    let items: Vec<El> = vals.iter().map(|v| El::make(*v)).collect();
                    let n = items.len();
                    Arc::protected_from_thin(Arc::into_thin(Arc::from_header_and_vec(HeaderWithLength::new(Hd::make(hv), n), items)))
                });
                // register the fresh allocation (owned by `fresh` for the moment)
                self.adopt(TH::Prot(fresh), "fresh replacement for with_arc_mut");
                let fi = self.slots.len() - 1;
                let fa = self.slots[fi].alloc;
                let TH::Prot(fresh) = self.take(fi) else { unreachable!() };
                self.slots.remove(fi);
                let TH::Thin(t) = &mut self.slots[i].h else { unreachable!() };
                let mut fresh = Some(fresh);
                let r = catch_unwind(AssertUnwindSafe(|| {
                    lib!(t.with_arc_mut(|a| {
                        if which == 4 {
                            std::panic::panic_any(tok::Injected);
                        }
                        *a = fresh.take().unwrap();
                        if which == 3 {
                            std::panic::panic_any(tok::Injected);
                        }
                    }))
                }));
                if which == 4 {
                    // nothing replaced: the fresh Arc is still ours; drop it
                    if let Some(f) = fresh.take() {
                        lib!(drop(f));
                    }
                    self.released(fa);
                    self.facts.with_arc_mut_panic = true;
                    if r.is_ok() {
                        viol::report(PANY, "M.panic", "injected panic did not propagate".into());
                    }
                    self.log(|| format!("with_arc_mut on slot {} (alloc #{}): panic before replacing", i, ai));
                } else {
                    // replaced: ThinArc must now point at the fresh allocation, the old one lost an owner
                    let TH::Thin(t) = &self.slots[i].h else { unreachable!() };
                    if t.heap_ptr() as usize != self.allocs[fa].block.ptr {
                        viol::report(&["C10", "C01", "C07"], "T.write-back", format!("with_arc_mut replaced the Arc{} but afterwards the ThinArc points at {:#x} instead of the replacement {:#x}", if which == 3 { " and then panicked" } else { "" }, t.heap_ptr() as usize, self.allocs[fa].block.ptr));
                    }
                    self.slots[i].alloc = fa;
                    self.allocs[fa].kinds.insert(TK::Thin);
                    self.released(ai);
                    self.facts.with_arc_mut_replace = true;
                    if which == 3 {
                        self.facts.with_arc_mut_panic = true;
                        if r.is_ok() {
                            viol::report(PANY, "M.panic", "injected panic did not propagate".into());
                        }
                    }
                    self.log(|| format!("with_arc_mut on slot {}: replaced alloc #{} by fresh alloc #{}{}", i, ai, fa, if which == 3 { " then panicked" } else { "" }));
                }
            }
            5 => {
                // swap with an existing protected handle in another slot (count-neutral exchange)
                let Some(j) = (0..n).find(|&j| j != i && self.slots[j].h.kind() == TK::Prot) else { return };
                let aj = self.slots[j].alloc;
                let TH::Prot(mut other) = self.take(j) else { unreachable!() };
                let TH::Thin(t) = &mut self.slots[i].h else { unreachable!() };
                lib!(t.with_arc_mut(|a| std::mem::swap(a, &mut other)));
                self.slots[j].h = TH::Prot(other);
                self.slots[i].alloc = aj;
                self.slots[j].alloc = ai;
                self.allocs[aj].kinds.insert(TK::Thin);
                self.allocs[ai].kinds.insert(TK::Prot);
                self.facts.with_arc_mut_replace = true;
                self.log(|| format!("with_arc_mut on slot {}: swapped with protected slot {} (alloc #{} <-> #{})", i, j, ai, aj));
            }
            _ => {
                // read-only callback observing count and addresses
                let TH::Thin(t) = &mut self.slots[i].h else { unreachable!() };
                let (c, hp, ha, sa, rl) = lib!(t.with_arc_mut(|a| (Arc::count(a), a.heap_ptr() as usize, a.header() as *const Hd as usize, a.slice().as_ptr() as usize, a.length())));
                let m = &self.allocs[ai];
                if c != owners as usize {
                    viol::report(PN, "N.count-in-callback", format!("with_arc_mut: count {} inside the callback but {} owning handles exist", c, owners));
                }
                if hp != m.block.ptr || ha != m.hdr_addr || sa != m.slice_addr || rl != m.els.len() {
                    viol::report(PT, "T.addr", format!("with_arc_mut view (heap {:#x}, header {:#x}, slice {:#x}, len {}) disagrees with the allocation", hp, ha, sa, rl));
                }
                self.facts.count_in_cb = true;
            }
        }
    }

    /// comparisons / hashing / formatting of thin and fat handles; counts are observed from inside
    /// the payload's own impls (count-neutral "not even while the borrow is in use")
    fn op_compare(&mut self, i: usize, b: u8, c: u8) {
        let j = pick(c, self.slots.len());
        let seen = std::cell::Cell::new(false);
        {
            let slots = &self.slots;
            let allocs = &self.allocs;
            let obs = |what: &'static str| {
                seen.set(true);
                for (sj, s) in slots.iter().enumerate() {
                    let owners = allocs[s.alloc].owners as usize;
                    let cnt = match &s.h {
                        TH::Thin(t) => Some(ThinArc::strong_count(t)),
                        TH::Fat(a) => Some(Arc::count(a)),
                        TH::Prot(a) => Some(Arc::count(a)),
                        _ => None,
                    };
                    if let Some(cnt) = cnt {
                        if cnt != owners {
                            viol::report(PN, "N.count-during-callback", format!("while the payload's {} ran, the count accessor of slot {} ({:?}) reported {} but {} owning handles exist", what, sj, s.h.kind(), cnt, owners));
                        }
                    }
                }
            };
            let which = pick(b, 5);
            tok::with_observer(&obs, || match (&slots[i].h, &slots[j].h) {
                (TH::Thin(x), TH::Thin(y)) => match which {
                    0 => {
                        let _ = lib!(x == y);
                    }
                    1 => {
                        let _ = lib!(x.partial_cmp(y));
                    }
                    2 => {
                        let _ = lib!(x != y);
                    }
                    3 => {
                        let mut h = std::collections::hash_map::DefaultHasher::new();
                        lib!(std::hash::Hash::hash(x, &mut h));
                    }
                    _ => {
                        let _ = lib!(format!("{:?}", x));
                    }
                },
                (TH::Fat(x), TH::Fat(y)) => match which {
                    0 | 2 => {
                        let _ = lib!(x == y);
                    }
                    1 => {
                        let _ = lib!(x.partial_cmp(y));
                    }
                    3 => {
                        let mut h = std::collections::hash_map::DefaultHasher::new();
                        lib!(std::hash::Hash::hash(x, &mut h));
                    }
                    _ => {
                        let _ = lib!(format!("{:?}", x));
                    }
                },
                (TH::Prot(x), TH::Prot(y)) => {
                    let _ = lib!(x == y);
                }
                (TH::Thin(x), TH::Fat(y)) | (TH::Fat(y), TH::Thin(x)) => {
                    let _ = lib!(x.with_arc(|a| a == y));
                }
                _ => {}
            });
        }
        if seen.get() {
            self.facts.count_in_cb = true;
        }
        self.log(|| format!("compare/hash/format slots {} and {} (variant {})", i, j, b));
    }

    fn op_uniq(&mut self, i0: usize, b: u8) {
        let n = self.slots.len();
        let Some(i) = (0..n).map(|d| (i0 + d) % n).find(|&j| matches!(self.slots[j].h.kind(), TK::Fat | TK::Prot)) else { return };
        let ai = self.slots[i].alloc;
        let owners = self.allocs[ai].owners;
        let verdict = match &mut self.slots[i].h {
            TH::Fat(a) => match pick(b, 3) {
                0 => lib!(a.is_unique()),
                1 => lib!(Arc::get_mut(a)).is_some(),
                _ => lib!(Arc::get_unique(a)).is_some(),
            },
            TH::Prot(a) => match pick(b, 3) {
                0 => lib!(a.is_unique()),
                1 => lib!(Arc::get_mut(a)).is_some(),
                _ => lib!(Arc::get_unique(a)).is_some(),
            },
            _ => unreachable!(),
        };
        if verdict != (owners == 1) {
            viol::report(PU, "U.verdict", format!("uniqueness API on slot {} (alloc #{}) answered {} but {} owning handles exist", i, ai, verdict, owners));
        }
        if !verdict {
            self.facts.uniq_declined.insert(ai);
        } else if self.facts.uniq_declined.contains(&ai) {
            self.facts.uniq_decline_then_success = true;
        }
        self.log(|| format!("uniqueness API on slot {} (alloc #{}, {} owners) -> {}", i, ai, owners, verdict));
    }

    fn teardown(&mut self, order: &[u8]) {
        let mut k = 0;
        while !self.slots.is_empty() {
            self.step += 1;
            alloc::set_step(self.step);
            let b = order.get(k).copied().unwrap_or(0);
            k += 1;
            let i = pick(b, self.slots.len());
            self.op_release(i, 0, 0);
            self.check_all();
        }
        for id in tok::live_ids() {
            viol::report(PL, "L.leak-value", format!("tok {} was never destroyed although every handle was released", id));
        }
        for b in alloc::live_blocks() {
            viol::report(&["C01", "C05"], "L.leak-block", format!("block #{} (size {}) was never freed although every handle was released", b.seq, b.size));
        }
    }
}

pub struct ThinEngine<Hd: SizedPayload, El: SizedPayload> {
    pub rule: &'static str,
    pub pname: &'static str,
    table: [TOp; 256],
    pub max_ops: usize,
    _p: PhantomData<fn() -> (Hd, El)>,
}

impl<Hd: SizedPayload, El: SizedPayload> ThinEngine<Hd, El> {
    pub fn new(prop: &'static str, max_ops: usize) -> Self {
        ThinEngine { rule: prop, pname: prop, table: ttable(&tprofile(prop)), max_ops, _p: PhantomData }
    }
}

impl<Hd: SizedPayload, El: SizedPayload> Engine for ThinEngine<Hd, El> {
    fn name(&self) -> String {
        format!("hist-thin<{},{}>/{}", Hd::tyname(), El::tyname(), self.pname)
    }
    fn params_len(&self) -> usize {
        12
    }
    fn ops_range(&self) -> (usize, usize) {
        (1, self.max_ops)
    }
    fn run(&self, case: &ByteCase, trace: bool) -> CaseReport {
        let _ = alloc::case_end();
        tok::reset();
        let _ = viol::take();
        #[cfg(feature = "arc-swap")]
        crate::warm_arc_swap();
        let mut st: TSt<Hd, El> = TSt { slots: vec![], allocs: vec![], next_val: 1, step: 0, facts: TFacts::default(), trace: if trace { Some(vec![]) } else { None } };
        let r = catch_unwind(AssertUnwindSafe(|| {
            for op in &case.ops {
                st.step(&self.table, *op);
                if viol::any_for(self.rule) {
                    break;
                }
            }
            if !viol::any_for(self.rule) {
                st.teardown(&case.params);
            }
        }));
        if r.is_err() {
            viol::report(PANY, "M.panic", "unexpected panic inside a library call of the history".into());
        }
        let viols = viol::take();
        let f = st.facts.clone();
        let tr = st.trace.take().unwrap_or_default();
        let kinds_max = st.allocs.iter().map(|a| a.kinds.len()).max().unwrap_or(0);
        if viols.is_empty() {
            drop(st);
        } else {
            std::mem::forget(st);
        }
        let _ = alloc::case_end();
        let nontrivial = match self.rule {
            "C10" => f.thin_fat_same_alloc_len2 || f.into_thin_wrong_len || f.with_arc_mut_replace,
            "C03" => f.uniq_decline_then_success,
            "C04" => f.count_in_cb && kinds_max >= 3,
            "C11" => f.raw_roundtrip,
            _ => kinds_max >= 2 && f.conversions >= 1,
        };
        let mut labels: Vec<&'static str> = vec![];
        if f.thin_fat_same_alloc_len2 {
            labels.push("thin+fat-view-same-alloc(len>=2)");
        }
        if f.into_thin_wrong_len {
            labels.push("into_thin-wrong-recorded-length");
        }
        if f.with_arc_mut_replace {
            labels.push("with_arc_mut-replaced");
        }
        if f.drop_panics >= 1 {
            labels.push("a payload destructor panicked during a release");
        }
        if f.clone_froms >= 1 {
            labels.push("clone_from");
        }
        if f.with_arc_mut_panic {
            labels.push("with_arc_mut-panicked");
        }
        if f.raw_roundtrip {
            labels.push("thin/fat-raw-roundtrip");
        }
        if kinds_max >= 3 {
            labels.push("thin-alloc-with>=3-kinds");
        }
        CaseReport { viols, nontrivial, labels, trace: tr }
    }
}
