//! Schedule engine, thin world: the same harness-owned scheduler and race oracle as `sched.rs`, over
//! ThinArc<H,T> and its fat / protected / raw views (header + two elements, all instrumented).

use std::collections::HashMap;
use std::marker::PhantomData;
use std::sync::{Arc as StdArc, Mutex};

use rt::alloc;
use rt::case::{pick, ByteCase};
use rt::run::{CaseReport, Engine};
use rt::tok;
use rt::{sim, viol};
use triomphe::{Arc, ThinArc};

use crate::hist_sized::SizedPayload;
use crate::hist_thin::{view, TH};

struct S<Hd: SizedPayload, El: SizedPayload>(TH<Hd, El>);
unsafe impl<Hd: SizedPayload, El: SizedPayload> Send for S<Hd, El> {}
unsafe impl<Hd: SizedPayload, El: SizedPayload> Sync for S<Hd, El> {}

#[derive(Clone, Copy, Debug, PartialEq, Eq)]
enum Op {
    Read,
    Clone,
    CloneShared,
    Drop,
    Convert,
    Count,
    Send,
    Recv,
    PollWrite,
}

fn table(prop: &str) -> [Op; 256] {
    use Op::*;
    let p: Vec<(Op, u32)> = match prop {
        "C03" => vec![(Read, 5), (Clone, 3), (Drop, 5), (Convert, 2), (Send, 2), (Recv, 2), (PollWrite, 8)],
        _ => vec![(Read, 6), (Clone, 4), (CloneShared, 3), (Drop, 6), (Convert, 4), (Count, 2), (Send, 3), (Recv, 3)],
    };
    let total: u32 = p.iter().map(|o| o.1).sum();
    let mut t = [Read; 256];
    let mut k = 0;
    let mut acc = p[0].1;
    for i in 0..256u32 {
        while k + 1 < p.len() && i * total >= acc * 256 {
            k += 1;
            acc += p[k].1;
        }
        t[i as usize] = p[k].0;
    }
    t
}

fn clone_via<Hd: SizedPayload, El: SizedPayload>(h: &TH<Hd, El>, b: u8) -> Option<TH<Hd, El>> {
    Some(match h {
        TH::Thin(t) => match pick(b, 3) {
            0 => TH::Thin(t.clone()),
            1 => TH::Fat(t.with_arc(|a| a.clone())),
            _ => TH::Thin(t.with_arc(|a| Arc::into_thin(a.clone()))),
        },
        TH::Fat(a) => TH::Fat(a.clone()),
        TH::Prot(a) => TH::Prot(a.clone()),
        _ => return None,
    })
}

fn convert<Hd: SizedPayload, El: SizedPayload>(h: TH<Hd, El>, b: u8) -> TH<Hd, El> {
    match h {
        TH::Thin(t) => match pick(b, 3) {
            0 => TH::Fat(Arc::from_thin(t)),
            1 => TH::Prot(Arc::protected_from_thin(t)),
            _ => TH::RawThin(t.into_raw()),
        },
        TH::Fat(a) => TH::Thin(Arc::into_thin(a)),
        TH::Prot(a) => TH::Thin(Arc::protected_into_thin(a)),
        TH::RawThin(p) => TH::Thin(unsafe { ThinArc::from_raw(p) }),
        other => other,
    }
}

fn drop_h<Hd: SizedPayload, El: SizedPayload>(h: TH<Hd, El>) {
    match h {
        TH::RawThin(p) => drop(unsafe { ThinArc::<Hd, El>::from_raw(p) }),
        other => drop(other),
    }
}

struct Shared<Hd: SizedPayload, El: SizedPayload> {
    roots: Vec<S<Hd, El>>,
    mail: Mutex<HashMap<u64, S<Hd, El>>>,
    next: Mutex<u64>,
    wrote: Mutex<bool>,
}

fn run_thread<Hd: SizedPayload, El: SizedPayload>(tid: usize, mut pool: Vec<TH<Hd, El>>, ops: Vec<(Op, u8, u8)>, sh: StdArc<Shared<Hd, El>>, nthreads: usize, trace: bool) {
    for (op, a, b) in ops {
        if op == Op::CloneShared {
            if pool.len() < 4 && !sh.roots.is_empty() {
                if let Some(n) = clone_via(&sh.roots[pick(a, sh.roots.len())].0, b) {
                    pool.push(n);
                }
            }
            continue;
        }
        if pool.is_empty() && op != Op::Recv {
            continue;
        }
        let i = pick(a, pool.len());
        if trace {
            sim::log(format!("  t{} {:?} slot {} (variant {})", tid, op, i, b));
        }
        match op {
            Op::Read | Op::Count => {
                let _ = view(&pool[i]);
            }
            Op::Clone => {
                if pool.len() < 4 {
                    if let Some(n) = clone_via(&pool[i], b) {
                        pool.push(n);
                    }
                }
            }
            Op::Drop => drop_h(pool.remove(i)),
            Op::Convert => {
                let h = pool.remove(i);
                pool.insert(i, convert(h, b));
            }
            Op::Send => {
                let to = 1 + pick(b, nthreads);
                if to != tid {
                    let h = pool.remove(i);
                    let token = {
                        let mut n = sh.next.lock().unwrap();
                        *n += 1;
                        *n
                    };
                    sh.mail.lock().unwrap().insert(token, S(h));
                    sim::send(to, token);
                }
            }
            Op::Recv => {
                if pool.len() < 4 {
                    if let Some(tok) = sim::try_recv() {
                        if let Some(h) = sh.mail.lock().unwrap().remove(&tok) {
                            pool.push(h.0);
                        }
                    }
                }
            }
            Op::PollWrite => {
                let v = tid as u64 * 1000 + a as u64;
                let wrote = match &mut pool[i] {
                    TH::Thin(t) => t.with_arc_mut(|x| match if b & 1 == 0 { Arc::get_mut(x) } else { Arc::get_unique(x).map(|u| &mut **u) } {
                        Some(p) => {
                            p.header_mut().setp(v);
                            for e in p.slice_mut() {
                                e.setp(v);
                            }
                            true
                        }
                        None => false,
                    }),
                    TH::Prot(x) => match Arc::get_mut(x) {
                        Some(p) => {
                            p.header_mut().setp(v);
                            true
                        }
                        None => false,
                    },
                    TH::Fat(x) => match Arc::get_mut(x) {
                        Some(p) => {
                            p.header.header.setp(v);
                            true
                        }
                        None => false,
                    },
                    _ => false,
                };
                if wrote {
                    *sh.wrote.lock().unwrap() = true;
                }
            }
            Op::CloneShared => {}
        }
    }
    while let Some(h) = pool.pop() {
        drop_h(h);
    }
}

pub struct SchedThinEngine<Hd: SizedPayload, El: SizedPayload> {
    prop: &'static str,
    table: [Op; 256],
    max_ops: usize,
    _p: PhantomData<fn() -> (Hd, El)>,
}

impl<Hd: SizedPayload, El: SizedPayload> SchedThinEngine<Hd, El> {
    pub fn new(prop: &'static str, max_ops: usize) -> Self {
        SchedThinEngine { prop, table: table(prop), max_ops, _p: PhantomData }
    }
}

impl<Hd: SizedPayload, El: SizedPayload> Engine for SchedThinEngine<Hd, El> {
    fn name(&self) -> String {
        format!("sched-thin<{},{}>/{}", Hd::tyname(), El::tyname(), self.prop)
    }
    fn params_len(&self) -> usize {
        96
    }
    fn ops_range(&self) -> (usize, usize) {
        (2, self.max_ops)
    }
    fn run(&self, case: &ByteCase, trace: bool) -> CaseReport {
        let _ = alloc::case_end();
        tok::reset();
        let _ = viol::take();
        let nthreads = 2 + pick(case.p(0), 3);
        sim::begin(sim::Config { sched: case.params[8..72.min(case.params.len())].to_vec(), stale: case.params[72.min(case.params.len())..].to_vec(), trace });
        let prev = alloc::set_track(true);
        let root: ThinArc<Hd, El> = ThinArc::from_header_and_iter(Hd::make(100), vec![El::make(101), El::make(102)].into_iter());
        let shared_roots = if case.p(7) & 1 == 1 { vec![S(TH::Thin(root.clone()))] } else { vec![] };
        let sh = StdArc::new(Shared::<Hd, El> { roots: shared_roots, mail: Mutex::new(HashMap::new()), next: Mutex::new(0), wrote: Mutex::new(false) });
        let mut progs: Vec<Vec<(Op, u8, u8)>> = vec![vec![]; nthreads + 1];
        for op in &case.ops {
            let t = 1 + pick(op[0], nthreads);
            if progs[t].len() < 8 {
                progs[t].push((self.table[op[1] as usize], op[2], op[3]));
            }
        }
        let mut bodies: Vec<Box<dyn FnOnce() + Send>> = vec![];
        for t in 1..=nthreads {
            let init = S(convert(TH::Thin(root.clone()), case.p(1 + t)));
            let init = if case.p(1 + t) & 3 == 3 { S(TH::Thin(match init.0 { TH::Thin(x) => x, o => { drop_h(o); root.clone() } })) } else { init };
            let ops = std::mem::take(&mut progs[t]);
            let sh2 = sh.clone();
            bodies.push(Box::new(move || {
                let init = init;
                run_thread(t, vec![init.0], ops, sh2, nthreads, trace)
            }));
        }
        drop(root);
        sim::run_threads(bodies);
        for t in sim::drain_mail() {
            if let Some(h) = sh.mail.lock().unwrap().remove(&t) {
                drop_h(h.0);
            }
        }
        let left: Vec<S<Hd, El>> = sh.mail.lock().unwrap().drain().map(|(_, h)| h).collect();
        for h in left {
            drop_h(h.0);
        }
        let wrote = *sh.wrote.lock().unwrap();
        if let Ok(mut s) = StdArc::try_unwrap(sh) {
            for r in s.roots.drain(..) {
                drop_h(r.0);
            }
        }
        alloc::set_track(prev);
        let rep = sim::end();
        for id in tok::live_ids() {
            viol::report(&["C02", "C01"], "S.leak-value", format!("tok {} was never destroyed although every thread released all its handles", id));
        }
        for b in alloc::live_blocks() {
            if rep.refcounted.contains(&b.seq) {
                viol::report(&["C02", "C01"], "S.leak-block", format!("block #{} was never freed although every thread released all its handles", b.seq));
            }
        }
        let viols = viol::take();
        let _ = alloc::case_end();
        let st = &rep.stats;
        let nontrivial = if self.prop == "C03" { wrote && st.threads_accessing >= 2 && st.preemptions >= 1 } else { st.threads_accessing >= 2 && st.preemptions >= 1 && st.frees >= 1 };
        let mut labels: Vec<&'static str> = vec!["sched:thin-world"];
        if st.preemptions >= 1 {
            labels.push("sched:>=1-preemption");
        }
        if st.stale_loads >= 1 {
            labels.push("sched:>=1-stale-load");
        }
        if st.mailbox >= 1 {
            labels.push("sched:mailbox-transfer");
        }
        CaseReport { viols, nontrivial, labels, trace: rep.trace }
    }
}
