//! Operations of the sized-world history engine.

use std::convert::TryFrom;
use std::panic::{catch_unwind, AssertUnwindSafe};

use rt::alloc::{self, track};
use rt::case::{pick, ByteCase};
use rt::run::{CaseReport, Engine};
use rt::tok::{self, Probe};
use rt::viol;
use triomphe::{Arc, ArcBorrow, ArcUnion, ArcUnionBorrow, HeaderSlice, OffsetArc, UniqueArc};

use crate::hist_sized::*;

const PN: &[&str] = &["C04"];
const PU: &[&str] = &["C03"];
const PW: &[&str] = &["C08"];
const PX: &[&str] = &["C09"];
const PP: &[&str] = &["C11"];
const PV: &[&str] = &["C12"];
const PI: &[&str] = &["C15"];

macro_rules! lib {
    ($e:expr) => {
        track(|| $e).0
    };
}

fn to_dyn<P: SizedPayload>(a: Arc<P>, via_unsize: bool) -> Arc<dyn Probe> {
    #[cfg(feature = "unsize")]
    {
        if via_unsize {
            use unsize::CoerceUnsize;
            return a.unsize(unsize::Coercion!(to dyn Probe));
        }
    }
    let _ = via_unsize;
    let raw: *const P = Arc::into_raw(a);
    let fat: *const dyn Probe = raw as *const dyn Probe;
    unsafe { Arc::from_raw(fat) }
}

fn from_dyn<P: SizedPayload>(d: Arc<dyn Probe>) -> Arc<P> {
    let raw: *const dyn Probe = Arc::into_raw(d);
    unsafe { Arc::from_raw(raw as *const P) }
}

impl<P: SizedPayload> St<P> {
    fn find(&self, start: usize, pred: impl Fn(Kind) -> bool) -> Option<usize> {
        let n = self.slots.len();
        (0..n).map(|d| (start + d) % n).find(|&i| pred(self.slots[i].h.kind()))
    }

    fn take(&mut self, i: usize) -> H<P> {
        std::mem::replace(&mut self.slots[i].h, H::Gone)
    }

    fn others_nonarc(&self, i: usize) -> bool {
        let ai = self.slots[i].alloc;
        self.slots.iter().enumerate().any(|(j, s)| j != i && s.alloc == ai && s.h.kind() != Kind::Arc)
    }

    fn cb_count(&mut self, what: &'static str, seen: usize, ai: usize) {
        let owners = self.allocs[ai].owners as usize;
        if seen != owners {
            viol::report(PN, "N.count-in-callback", format!("{} saw count {} inside the callback but {} owning handles exist (alloc #{})", what, seen, owners, ai));
        }
        if owners >= 3 {
            self.facts.count_in_callback_at3 = true;
        }
    }

    pub fn step(&mut self, table: &[OpK; 256], op: [u8; 4]) {
        self.step += 1;
        alloc::set_step(self.step);
        let mut k = table[op[0] as usize];
        if self.slots.is_empty() {
            k = OpK::Create;
        }
        let i = pick(op[1], self.slots.len());
        viol::set_ctx("");
        match k {
            OpK::Read => self.op_read(i),
            OpK::Create => self.op_create(i, op[2]),
            OpK::Clone => self.op_clone(i, op[2]),
            OpK::Convert => self.op_convert(i, op[2]),
            OpK::Release => self.op_release(i, op[2]),
            OpK::Borrow => self.op_borrow(i, op[2]),
            OpK::Uniq => self.op_uniq(i, op[2]),
            OpK::MakeMut => self.op_makemut(i, op[2]),
            OpK::Unwrap => self.op_unwrap(i, op[2]),
            OpK::Move => self.op_move(i, op[2], op[3]),
            OpK::Compare => self.op_compare(i, op[2], op[3]),
            OpK::Nested => self.op_nested(i, op[2], op[3]),
        }
        viol::set_ctx("");
        self.check_all();
    }

    fn op_read(&mut self, i: usize) {
        let k = self.slots[i].h.kind();
        self.log(|| format!("read slot {} ({:?})", i, k));
    }

    fn op_create(&mut self, i: usize, b: u8) {
        if self.slots.len() >= MAX_SLOTS {
            return self.op_read(i);
        }
        let v = self.fresh_val();
        match pick(b, 9) {
            0 => {
                let (a, e) = track(|| Arc::new(P::make(v)));
                self.adopt(H::Arc(a), &e, Some(v), "Arc::new");
            }
            1 => {
                let (a, e) = track(|| Arc::<P>::from(P::make(v)));
                self.adopt(H::Arc(a), &e, Some(v), "Arc::from(T)");
            }
            2 => {
                let (a, e) = track(|| Arc::<P>::from(Box::new(P::make(v))));
                // (the Box itself may be elided by the optimiser for payloads without drop glue: only
                // the surviving block is checked, in adopt())
                self.adopt(H::Arc(a), &e, Some(v), "Arc::from(Box<T>)");
            }
            3 => {
                let (a, e) = track(|| UniqueArc::new(P::make(v)));
                self.adopt(H::Uniq(a), &e, Some(v), "UniqueArc::new");
            }
            4 => {
                let (a, e) = track(|| {
                    let mut u = UniqueArc::<P>::new_uninit();
                    u.write(P::make(v));
                    unsafe { UniqueArc::assume_init(u) }
                });
                self.adopt(H::Uniq(a), &e, Some(v), "UniqueArc::new_uninit+write+assume_init");
            }
            5 => {
                #[allow(deprecated)]
                let (a, e) = track(|| {
                    let mut u = Arc::<std::mem::MaybeUninit<P>>::new_uninit();
                    u.write(P::make(v));
                    unsafe { u.assume_init() }
                });
                self.adopt(H::Arc(a), &e, Some(v), "Arc::new_uninit+write+assume_init");
            }
            6 => {
                let (a, e) = track(Arc::<P>::default);
                self.adopt(H::Arc(a), &e, Some(0), "Arc::default");
            }
            7 => {
                let (a, e) = track(|| Arc::new(HeaderSlice { header: (), slice: P::make(v) }));
                self.adopt(H::Hs(a), &e, Some(v), "Arc::new(HeaderSlice{(),T})");
            }
            _ => {
                let (a, e) = track(|| UniqueArc::new(P::make(v)).shareable());
                self.adopt(H::Arc(a), &e, Some(v), "UniqueArc::new().shareable()");
            }
        }
    }

    fn op_clone(&mut self, i: usize, b: u8) {
        if self.slots.len() >= MAX_SLOTS {
            return self.op_read(i);
        }
        let ai = self.slots[i].alloc;
        let kind = self.slots[i].h.kind();
        let mut cb: Option<(&'static str, usize)> = None;
        let (new, how): (Option<H<P>>, &'static str) = match &self.slots[i].h {
            H::Arc(a) => match pick(b, 7) {
                0 => (Some(H::Arc(lib!(a.clone()))), "Arc::clone"),
                1 => (Some(H::Arc(lib!(a.borrow_arc().clone_arc()))), "Arc::borrow_arc().clone_arc()"),
                2 => {
                    let (o, c) = lib!(a.with_raw_offset_arc(|o| { let c = OffsetArc::strong_count(o); (o.clone(), c) }));
                    cb = Some(("Arc::with_raw_offset_arc", c));
                    (Some(H::Off(o)), "Arc::with_raw_offset_arc(|o| o.clone())")
                }
                3 => (Some(H::Arc(lib!(a.with_raw_offset_arc(|o| o.clone_arc())))), "Arc::with_raw_offset_arc(|o| o.clone_arc())"),
                4 => (Some(H::Arc(lib!(unsafe { ArcBorrow::from_ptr(Arc::as_ptr(a)) }.clone_arc()))), "ArcBorrow::from_ptr(Arc::as_ptr).clone_arc()"),
                5 => {
                    let (n, c) = lib!(a.borrow_arc().with_arc(|x| { let c = Arc::count(x); (x.clone(), c) }));
                    cb = Some(("ArcBorrow::with_arc", c));
                    (Some(H::Arc(n)), "ArcBorrow::with_arc(|a| a.clone())")
                }
                _ => {
                    // a Copy of the borrow, then promote
                    let bo = a.borrow_arc();
                    let b2 = bo;
                    (Some(H::Arc(lib!(b2.clone_arc()))), "ArcBorrow copy .clone_arc()")
                }
            },
            H::Off(o) => match pick(b, 4) {
                0 => (Some(H::Off(lib!(o.clone()))), "OffsetArc::clone"),
                1 => (Some(H::Arc(lib!(o.clone_arc()))), "OffsetArc::clone_arc"),
                2 => {
                    let (n, c) = lib!(o.with_arc(|x| { let c = Arc::count(x); (x.clone(), c) }));
                    cb = Some(("OffsetArc::with_arc", c));
                    (Some(H::Arc(n)), "OffsetArc::with_arc(|a| a.clone())")
                }
                _ => (Some(H::Arc(lib!(o.borrow_arc().clone_arc()))), "OffsetArc::borrow_arc().clone_arc()"),
            },
            H::U1(u) => match pick(b, 3) {
                0 => {
                    self.facts.union_clone = true;
                    (Some(H::U1(lib!(u.clone()))), "ArcUnion(first)::clone")
                }
                1 => (lib!(u.as_first().map(|x| x.clone_arc())).map(H::Arc), "ArcUnion::as_first().clone_arc()"),
                _ => (
                    match lib!(u.borrow()) {
                        ArcUnionBorrow::First(x) => Some(H::Arc(lib!(x.clone_arc()))),
                        ArcUnionBorrow::Second(_) => None,
                    },
                    "ArcUnion::borrow() First.clone_arc()",
                ),
            },
            H::U2(u) => match pick(b, 3) {
                0 => {
                    self.facts.union_clone = true;
                    (Some(H::U2(lib!(u.clone()))), "ArcUnion(second)::clone")
                }
                1 => (lib!(u.as_second().map(|x| x.clone_arc())).map(H::Arc), "ArcUnion::as_second().clone_arc()"),
                _ => (
                    match lib!(u.borrow()) {
                        ArcUnionBorrow::Second(x) => Some(H::Arc(lib!(x.clone_arc()))),
                        ArcUnionBorrow::First(_) => None,
                    },
                    "ArcUnion::borrow() Second.clone_arc()",
                ),
            },
            H::Uniq(_) => return self.op_read(i),
            H::Raw(p) => {
                let p = *p;
                match pick(b, 2) {
                    0 => (Some(H::Arc(lib!(unsafe { ArcBorrow::from_ptr(p) }.clone_arc()))), "ArcBorrow::from_ptr(raw).clone_arc()"),
                    _ => {
                        let (n, c) = lib!(unsafe { ArcBorrow::from_ptr(p) }.with_arc(|x| { let c = Arc::strong_count(x); (x.clone(), c) }));
                        cb = Some(("ArcBorrow::from_ptr(raw).with_arc", c));
                        (Some(H::Arc(n)), "ArcBorrow::from_ptr(raw).with_arc(|a| a.clone())")
                    }
                }
            }
            H::Dyn(d) => (Some(H::Dyn(lib!(d.clone()))), "Arc<dyn>::clone"),
            H::Hs(h) => (Some(H::Hs(lib!(h.clone()))), "Arc<HeaderSlice<(),T>>::clone"),
            #[cfg(feature = "arc-swap")]
            H::Swap(s) => (Some(H::Arc(s.load_full())), "ArcSwapAny::load_full"),
            H::Gone => (None, "gone"),
        };
        if let Some((what, c)) = cb {
            self.cb_count(what, c, ai);
        }
        match new {
            Some(h) => {
                let nk = h.kind();
                self.allocs[ai].owners += 1;
                self.note_kind(ai, nk);
                if kind != Kind::Arc {
                    self.facts.clones_nonarc += 1;
                }
                let owners = self.allocs[ai].owners;
                let ns = self.slots.len();
                self.log(|| format!("clone slot {} ({:?}, alloc #{}) via {} -> slot {} ({:?}); owners now {}", i, kind, ai, how, ns, nk, owners));
                self.slots.push(Slot { h, alloc: ai });
            }
            None => {
                viol::report(PV, "V.accessor", format!("{} on slot {} ({:?}) returned the wrong variant / None", how, i, kind));
            }
        }
    }

    fn op_convert(&mut self, i: usize, b: u8) {
        let ai = self.slots[i].alloc;
        let owners = self.allocs[ai].owners;
        let h = self.take(i);
        let from = h.kind();
        let before_addr = self.allocs[ai].data_addr;
        let (nh, how): (H<P>, &'static str) = match h {
            H::Arc(a) => {
                let n = if cfg!(feature = "arc-swap") { 10 } else { 9 };
                match pick(b, n) {
                    0 => (H::Off(lib!(Arc::into_raw_offset(a))), "Arc::into_raw_offset"),
                    1 => (H::U1(lib!(ArcUnion::from_first(a))), "ArcUnion::from_first"),
                    2 => (H::U2(lib!(ArcUnion::from_second(a))), "ArcUnion::from_second"),
                    3 => {
                        let expect = Arc::as_ptr(&a);
                        let p = lib!(Arc::into_raw(a));
                        if p != expect {
                            viol::report(PP, "P.into-raw", format!("Arc::into_raw returned {:p} but as_ptr was {:p}", p, expect));
                        }
                        (H::Raw(p), "Arc::into_raw")
                    }
                    4 => (H::Dyn(lib!(to_dyn(a, false))), "into_raw -> *const dyn -> from_raw"),
                    5 => (H::Dyn(lib!(to_dyn(a, true))), "unsize to Arc<dyn> (or raw cast without the feature)"),
                    6 => (H::Hs(lib!(Arc::<HeaderSlice<(), P>>::from(a))), "Arc<T> -> Arc<HeaderSlice<(),T>>"),
                    7 | 8 => {
                        // uniqueness-gated conversion
                        let addr = Arc::as_ptr(&a) as usize;
                        let r = if pick(b, n) == 7 { lib!(Arc::try_unique(a)) } else { lib!(UniqueArc::try_from(a)) };
                        match r {
                            Ok(u) => {
                                if owners != 1 {
                                    viol::report(PU, "U.verdict", format!("try_unique succeeded although {} owning handles exist (alloc #{})", owners, ai));
                                }
                                (H::Uniq(u), "Arc::try_unique -> Ok")
                            }
                            Err(a) => {
                                if owners == 1 {
                                    viol::report(PU, "U.verdict", format!("try_unique declined although the handle is the sole owner (alloc #{})", ai));
                                }
                                if Arc::as_ptr(&a) as usize != addr {
                                    viol::report(&["C03", "C09"], "U.decline-handle", "try_unique declined but returned a different handle".to_string());
                                }
                                (H::Arc(a), "Arc::try_unique -> Err(same)")
                            }
                        }
                    }
                    _ => {
                        #[cfg(feature = "arc-swap")]
                        {
                            (H::Swap(Box::new(arc_swap::ArcSwapAny::new(a))), "ArcSwapAny::new")
                        }
                        #[cfg(not(feature = "arc-swap"))]
                        {
                            (H::Arc(a), "noop")
                        }
                    }
                }
            }
            H::Off(o) => (H::Arc(lib!(Arc::from_raw_offset(o))), "Arc::from_raw_offset"),
            H::Raw(p) => (H::Arc(lib!(unsafe { Arc::from_raw(p) })), "Arc::from_raw"),
            H::Dyn(d) => (H::Arc(lib!(from_dyn::<P>(d))), "Arc<dyn> -> into_raw -> thin cast -> from_raw"),
            H::Hs(h) => (H::Arc(lib!(Arc::<P>::from(h))), "Arc<HeaderSlice<(),T>> -> Arc<T>"),
            H::Uniq(u) => (H::Arc(lib!(u.shareable())), "UniqueArc::shareable"),
            #[cfg(feature = "arc-swap")]
            H::Swap(s) => (H::Arc(s.into_inner()), "ArcSwapAny::into_inner"),
            H::U1(u) => {
                // no consuming accessor exists: promote the borrow, then drop the union
                let a = lib!(u.as_first().map(|x| x.clone_arc()));
                lib!(drop(u));
                match a {
                    Some(a) => (H::Arc(a), "ArcUnion::as_first().clone_arc(); drop(union)"),
                    None => {
                        viol::report(PV, "V.accessor", "as_first() returned None on a first-variant union".into());
                        self.released(ai, Kind::U1, false);
                        self.slots.remove(i);
                        return;
                    }
                }
            }
            H::U2(u) => {
                let a = lib!(u.as_second().map(|x| x.clone_arc()));
                lib!(drop(u));
                match a {
                    Some(a) => (H::Arc(a), "ArcUnion::as_second().clone_arc(); drop(union)"),
                    None => {
                        viol::report(PV, "V.accessor", "as_second() returned None on a second-variant union".into());
                        self.released(ai, Kind::U2, false);
                        self.slots.remove(i);
                        return;
                    }
                }
            }
            H::Gone => (H::Gone, "gone"),
        };
        let to = nh.kind();
        let da = data_addr(&nh);
        if da != before_addr {
            viol::report(PP, "P.convert-addr", format!("{}: value address changed from {:#x} to {:#x}", how, before_addr, da));
        }
        if from == Kind::Raw || to == Kind::Raw {
            // round trip facts
            if self.allocs[ai].kinds.len() > 2 {
                self.facts.roundtrip_with_clone_between = true;
            }
        }
        self.facts.conversions += 1;
        self.note_kind(ai, to);
        self.slots[i].h = nh;
        self.log(|| format!("convert slot {} (alloc #{}) {:?} -> {:?} via {}", i, ai, from, to, how));
    }

    fn op_release(&mut self, i: usize, b: u8) {
        let ai = self.slots[i].alloc;
        let owners = self.allocs[ai].owners;
        let h = self.take(i);
        let kind = h.kind();
        let mut moved = false;
        // one release in four runs with a panic armed inside the payload's destructor: the value still counts as
        // destroyed (once) and the block must still be returned, as for Box<T>
        let dp = (b & 0xC0) == 0xC0 && kind != Kind::Swap;
        let mut unwound = false;
        macro_rules! rel {
            ($h:expr) => {{
                let hh = $h;
                if dp {
                    tok::drop_panic_at(1);
                }
                let r = lib!(catch_unwind(AssertUnwindSafe(move || drop(hh))));
                tok::drop_panic_at(0);
                if let Err(e) = r {
                    unwound = true;
                    drop(e);
                }
            }};
        }
        let how: &'static str = match h {
            H::Arc(a) => {
                rel!(a);
                "drop(Arc)"
            }
            H::Off(o) => {
                rel!(o);
                "drop(OffsetArc)"
            }
            H::U1(u) => {
                rel!(u);
                "drop(ArcUnion first)"
            }
            H::U2(u) => {
                rel!(u);
                "drop(ArcUnion second)"
            }
            H::Uniq(u) => {
                if pick(b, 2) == 0 {
                    rel!(u);
                    "drop(UniqueArc)"
                } else {
                    let id = self.allocs[ai].tok_id;
                    let v = lib!(UniqueArc::into_inner(u));
                    self.check_moved_out(&v, ai, "UniqueArc::into_inner");
                    self.outs.push((v, id));
                    moved = true;
                    "UniqueArc::into_inner"
                }
            }
            H::Raw(p) => {
                rel!(unsafe { Arc::from_raw(p) });
                "drop(Arc::from_raw(raw))"
            }
            H::Dyn(d) => {
                rel!(d);
                "drop(Arc<dyn>)"
            }
            H::Hs(h) => {
                rel!(h);
                "drop(Arc<HeaderSlice<(),T>>)"
            }
            #[cfg(feature = "arc-swap")]
            H::Swap(s) => {
                drop(s);
                "drop(ArcSwapAny)"
            }
            H::Gone => "gone",
        };
        let _ = owners;
        self.released(ai, kind, moved);
        self.slots.remove(i);
        let o = self.allocs[ai].owners;
        if unwound {
            self.facts.drop_panics += 1;
        }
        self.log(|| format!("release slot {} ({:?}, alloc #{}) via {}{}; owners now {}", i, kind, ai, how, if unwound { " (the payload's destructor panicked)" } else { "" }, o));
    }

    fn check_moved_out(&mut self, v: &P, ai: usize, how: &'static str) {
        let p = v.peekp();
        let m = &self.allocs[ai];
        if !p.ok || p.id != m.tok_id || p.val != m.val {
            viol::report(PX, "X.moved-value", format!("{}: the value handed out reads {:?} but the allocation held tok {} val {}", how, p, m.tok_id as i64, m.val));
        }
    }

    fn op_borrow(&mut self, i: usize, b: u8) {
        let ai = self.slots[i].alloc;
        let m_addr = self.allocs[ai].data_addr;
        let m_id = self.allocs[ai].tok_id;
        let kind = self.slots[i].h.kind();
        self.facts.borrows += 1;
        let mut seen: Vec<(&'static str, usize)> = vec![];
        let mut addrs: Vec<(&'static str, usize)> = vec![];
        let mut ids: Vec<(&'static str, u32)> = vec![];
        match &self.slots[i].h {
            H::Arc(a) => match pick(b, 4) {
                0 => {
                    let bo = lib!(a.borrow_arc());
                    seen.push(("ArcBorrow::strong_count", ArcBorrow::strong_count(&bo)));
                    addrs.push(("ArcBorrow::get", bo.get() as *const P as usize));
                    addrs.push(("ArcBorrow bit pattern", unsafe { std::mem::transmute_copy::<ArcBorrow<'_, P>, usize>(&bo) }));
                    ids.push(("ArcBorrow::get", bo.get().peekp().id));
                    let (c, p) = lib!(bo.with_arc(|x| (Arc::count(x), Arc::as_ptr(x) as usize)));
                    seen.push(("ArcBorrow::with_arc(count)", c));
                    addrs.push(("ArcBorrow::with_arc(as_ptr)", p));
                }
                1 => {
                    let (c1, c2, p, bits) = lib!(a.with_raw_offset_arc(|o| (
                        OffsetArc::strong_count(o),
                        o.with_arc(|x| Arc::count(x)),
                        &**o as *const P as usize,
                        unsafe { std::mem::transmute_copy::<OffsetArc<P>, usize>(o) }
                    )));
                    seen.push(("with_raw_offset_arc(OffsetArc::strong_count)", c1));
                    seen.push(("with_raw_offset_arc(with_arc(count))", c2));
                    addrs.push(("with_raw_offset_arc(deref)", p));
                    addrs.push(("OffsetArc bit pattern", bits));
                }
                2 => {
                    addrs.push(("Arc::as_ptr", Arc::as_ptr(a) as usize));
                    let hp = a.heap_ptr() as usize;
                    let bp = self.allocs[ai].block.ptr;
                    if hp != bp {
                        viol::report(PP, "P.heap-ptr", format!("Arc::heap_ptr {:#x} is not the block start {:#x}", hp, bp));
                    }
                    let r: &P = std::borrow::Borrow::borrow(a);
                    addrs.push(("Borrow::borrow", r as *const P as usize));
                    let r: &P = a.as_ref();
                    addrs.push(("AsRef::as_ref", r as *const P as usize));
                }
                _ => {
                    // the borrow stays in use across a count read
                    let bo = a.borrow_arc();
                    let c = Arc::count(a);
                    seen.push(("Arc::count while ArcBorrow alive", c));
                    ids.push(("ArcBorrow deref", (*bo).peekp().id));
                }
            },
            H::Off(o) => match pick(b, 3) {
                0 => {
                    let (c, p) = lib!(o.with_arc(|x| (Arc::count(x), Arc::as_ptr(x) as usize)));
                    seen.push(("OffsetArc::with_arc(count)", c));
                    addrs.push(("OffsetArc::with_arc(as_ptr)", p));
                }
                1 => {
                    let bo = lib!(o.borrow_arc());
                    seen.push(("OffsetArc::borrow_arc strong_count", ArcBorrow::strong_count(&bo)));
                    addrs.push(("OffsetArc::borrow_arc get", bo.get() as *const P as usize));
                }
                _ => {
                    addrs.push(("OffsetArc bit pattern", unsafe { std::mem::transmute_copy::<OffsetArc<P>, usize>(o) }));
                }
            },
            H::U1(u) => {
                if !u.is_first() || u.is_second() {
                    viol::report(PV, "V.variant", "union built from_first: is_first/is_second disagree".into());
                }
                if lib!(u.as_second()).is_some() {
                    viol::report(PV, "V.variant", "union built from_first: as_second() is Some".into());
                }
                match lib!(u.as_first()) {
                    Some(bo) => {
                        seen.push(("ArcUnion::as_first strong_count", ArcBorrow::strong_count(&bo)));
                        addrs.push(("ArcUnion::as_first get", bo.get() as *const P as usize));
                        ids.push(("ArcUnion::as_first get", bo.get().peekp().id));
                    }
                    None => viol::report(PV, "V.variant", "union built from_first: as_first() is None".into()),
                }
                seen.push(("ArcUnion::strong_count", ArcUnion::strong_count(u)));
            }
            H::U2(u) => {
                if u.is_first() || !u.is_second() {
                    viol::report(PV, "V.variant", "union built from_second: is_first/is_second disagree".into());
                }
                if lib!(u.as_first()).is_some() {
                    viol::report(PV, "V.variant", "union built from_second: as_first() is Some".into());
                }
                match lib!(u.as_second()) {
                    Some(bo) => {
                        seen.push(("ArcUnion::as_second strong_count", ArcBorrow::strong_count(&bo)));
                        addrs.push(("ArcUnion::as_second get", bo.get() as *const P as usize));
                        ids.push(("ArcUnion::as_second get", bo.get().peekp().id));
                    }
                    None => viol::report(PV, "V.variant", "union built from_second: as_second() is None".into()),
                }
                seen.push(("ArcUnion::strong_count", ArcUnion::strong_count(u)));
            }
            H::Uniq(u) => {
                addrs.push(("UniqueArc deref", &**u as *const P as usize));
            }
            H::Raw(p) => {
                let bo = unsafe { ArcBorrow::from_ptr(*p) };
                seen.push(("ArcBorrow::from_ptr strong_count", ArcBorrow::strong_count(&bo)));
                let (c, ap) = lib!(bo.with_arc(|x| (Arc::count(x), Arc::as_ptr(x) as usize)));
                seen.push(("ArcBorrow::from_ptr with_arc(count)", c));
                addrs.push(("ArcBorrow::from_ptr with_arc(as_ptr)", ap));
            }
            H::Dyn(d) => {
                addrs.push(("Arc<dyn>::as_ptr", Arc::as_ptr(d) as *const () as usize));
                let hp = d.heap_ptr() as usize;
                if hp != self.allocs[ai].block.ptr {
                    viol::report(PP, "P.heap-ptr", format!("Arc<dyn>::heap_ptr {:#x} is not the block start {:#x}", hp, self.allocs[ai].block.ptr));
                }
            }
            H::Hs(h) => {
                addrs.push(("Arc<HeaderSlice>::as_ptr", Arc::as_ptr(h) as usize));
                let hp = h.heap_ptr() as usize;
                if hp != self.allocs[ai].block.ptr {
                    viol::report(PP, "P.heap-ptr", format!("Arc<HeaderSlice>::heap_ptr {:#x} is not the block start {:#x}", hp, self.allocs[ai].block.ptr));
                }
            }
            #[cfg(feature = "arc-swap")]
            H::Swap(s) => {
                let g = s.load();
                seen.push(("ArcSwap::load count", Arc::count(&g)));
                addrs.push(("RefCnt::as_ptr", <Arc<P> as arc_swap::RefCnt>::as_ptr(&g) as usize));
            }
            H::Gone => {}
        }
        for (w, c) in seen {
            self.cb_count(w, c, ai);
        }
        for (w, a) in addrs {
            if a != m_addr {
                viol::report(PP, "P.accessor-addr", format!("{} yields {:#x} but the value lives at {:#x} (slot {}, {:?})", w, a, m_addr, i, kind));
            }
        }
        for (w, id) in ids {
            if id != m_id {
                viol::report(&["C01", "C12"], "L.borrow-value", format!("{} reads tok {} but the allocation holds tok {}", w, id as i64, m_id as i64));
            }
        }
        self.log(|| format!("borrow accessors on slot {} ({:?}, alloc #{}) variant {}", i, kind, ai, b));
    }

    fn op_uniq(&mut self, i0: usize, b: u8) {
        let Some(i) = self.find(i0, |k| matches!(k, Kind::Arc | Kind::Dyn | Kind::Hs)) else { return self.op_read(i0) };
        let ai = self.slots[i].alloc;
        let owners = self.allocs[ai].owners;
        let sole = owners == 1;
        let nonarc = self.others_nonarc(i);
        let newv = self.fresh_val();
        let kind = self.slots[i].h.kind();
        let which = pick(b, 3);
        // returns (verdict, wrote)
        macro_rules! gate {
            ($a:expr, $set:expr) => {{
                let a = $a;
                match which {
                    0 => (lib!(a.is_unique()), false, "is_unique"),
                    1 => match lib!(Arc::get_mut(a)) {
                        Some(r) => {
                            $set(r, newv);
                            (true, true, "get_mut")
                        }
                        None => (false, false, "get_mut"),
                    },
                    _ => match lib!(Arc::get_unique(a)) {
                        Some(u) => {
                            $set(&mut **u, newv);
                            (true, true, "get_unique")
                        }
                        None => (false, false, "get_unique"),
                    },
                }
            }};
        }
        let before = data_addr(&self.slots[i].h);
        let (verdict, wrote, api) = match &mut self.slots[i].h {
            H::Arc(a) => gate!(a, |r: &mut P, v| r.setp(v)),
            H::Hs(h) => gate!(h, |r: &mut HeaderSlice<(), P>, v| r.slice.setp(v)),
            H::Dyn(d) => match which {
                0 => (lib!(d.is_unique()), false, "is_unique"),
                1 => (lib!(Arc::get_mut(d)).is_some(), false, "get_mut"),
                _ => (lib!(Arc::get_unique(d)).is_some(), false, "get_unique"),
            },
            _ => unreachable!(),
        };
        if verdict != sole {
            viol::report(
                PU,
                "U.verdict",
                format!("{} on slot {} ({:?}, alloc #{}) answered {} but {} owning handles exist", api, i, kind, ai, verdict, owners),
            );
        }
        if wrote && !P::ZST {
            self.allocs[ai].val = newv;
        }
        if data_addr(&self.slots[i].h) != before {
            viol::report(PU, "U.decline-handle", format!("{} changed the handle's allocation", api));
        }
        if !sole && nonarc {
            self.facts.uniq_decline_nonarc.insert(ai);
        }
        if sole && self.facts.uniq_decline_nonarc.contains(&ai) {
            self.facts.uniq_success_after_decline = true;
        }
        self.log(|| format!("{} on slot {} ({:?}, alloc #{}, {} owners) -> {}{}", api, i, kind, ai, owners, verdict, if wrote { format!(", wrote {}", newv) } else { String::new() }));
    }

    fn op_makemut(&mut self, i0: usize, b: u8) {
        let Some(i) = self.find(i0, |k| matches!(k, Kind::Arc | Kind::Off | Kind::Hs | Kind::Uniq)) else { return self.op_read(i0) };
        let ai = self.slots[i].alloc;
        let owners = self.allocs[ai].owners;
        let sole = owners == 1;
        let nonarc = self.others_nonarc(i);
        let newv = self.fresh_val();
        let kind = self.slots[i].h.kind();
        if !sole && b >= 192 && !P::ZST {
            // Clone::clone panics: the handle must be left as it was (same allocation, counts unchanged)
            let before = data_addr(&self.slots[i].h);
            tok::panic_at(1);
            let r = match &mut self.slots[i].h {
                H::Arc(a) => catch_unwind(AssertUnwindSafe(|| lib!(Arc::make_mut(a).peekp().val))),
                H::Off(o) => catch_unwind(AssertUnwindSafe(|| lib!(o.make_mut().peekp().val))),
                H::Hs(h) => catch_unwind(AssertUnwindSafe(|| lib!(Arc::make_mut(h).slice.peekp().val))),
                _ => Ok(0),
            };
            tok::panic_at(0);
            let unwound = r.is_err();
            drop(r);
            if unwound {
                if data_addr(&self.slots[i].h) != before {
                    viol::report(&["C08", "C07"], "W.clone-panic-moved", format!("make_mut on slot {} ({:?}): Clone panicked but the handle points elsewhere", i, kind));
                }
                for (sj, s) in self.slots.iter().enumerate() {
                    if s.alloc == ai {
                        for (n, cnt) in counts(&s.h) {
                            if cnt != owners as usize {
                                viol::report(&["C08", "C07"], "W.clone-panic-count", format!("make_mut on slot {} ({:?}): Clone panicked and afterwards {} on slot {} reports {} but {} owning handles exist (the previous allocation must lose an owner only when the copy succeeded)", i, kind, n, sj, cnt, owners));
                            }
                        }
                    }
                }
                self.log(|| format!("make_mut on slot {} ({:?}, alloc #{}, {} owners): Clone panicked", i, kind, ai, owners));
                return;
            }
        }
        if owners == 2 && (160..192).contains(&b) && !P::ZST && peek(&self.slots[i].h).id != tok::NONE && matches!(kind, Kind::Arc | Kind::Off | Kind::Hs) {
            // Two legal oddities at once: Clone::clone releases the only OTHER owner (it has access to it), so the
            // handle being detached becomes the last owner of the old value while make_mut is running; and the old
            // value's destructor, which therefore runs inside make_mut, panics. Afterwards the handle must still
            // be a valid sole owner of SOME live allocation (the fresh copy), the old value destroyed exactly once
            // and its block returned.
            let j = (0..self.slots.len()).find(|&j| j != i && self.slots[j].alloc == ai && matches!(self.slots[j].h.kind(), Kind::Arc | Kind::Off | Kind::Dyn | Kind::Hs | Kind::U1 | Kind::U2));
            if let Some(j) = j {
                let old_addr = data_addr(&self.slots[i].h);
                let old_val = self.allocs[ai].val;
                let jkind = self.slots[j].h.kind();
                let other = std::cell::RefCell::new(Some(self.take(j)));
                let obs = |what: &'static str| {
                    if what == "clone" {
                        if let Some(h) = other.borrow_mut().take() {
                            drop(h);
                        }
                    }
                };
                tok::drop_panic_at(1);
                let (r, eff) = {
                    let hi = &mut self.slots[i].h;
                    track(|| {
                        tok::with_observer(&obs, || match hi {
                            H::Arc(a) => {
                                if b & 1 == 0 {
                                    catch_unwind(AssertUnwindSafe(|| Arc::make_mut(a).peekp().val))
                                } else {
                                    catch_unwind(AssertUnwindSafe(|| (**Arc::make_unique(a)).peekp().val))
                                }
                            }
                            H::Off(o) => catch_unwind(AssertUnwindSafe(|| o.make_mut().peekp().val)),
                            H::Hs(h) => catch_unwind(AssertUnwindSafe(|| Arc::make_mut(h).slice.peekp().val)),
                            _ => Ok(0),
                        })
                    })
                };
                tok::drop_panic_at(0);
                let unwound = r.is_err();
                drop(r);
                drop(other);
                // model: both owners of the old allocation are gone
                self.released(ai, jkind, false);
                self.released(ai, kind, false);
                let new_block = eff.allocs.iter().filter(|b| alloc::block_by_seq(b.seq).map(|x| x.live).unwrap_or(false)).last().copied();
                let now_addr = data_addr(&self.slots[i].h);
                let in_new = new_block.map(|bl| now_addr >= bl.ptr && now_addr < bl.ptr + bl.size.max(1) + 64).unwrap_or(false);
                if now_addr == old_addr || !in_new {
                    viol::report(
                        &["C07", "C08", "C01"],
                        "W.dangling-after-unwind",
                        format!("make_mut on slot {} ({:?}): Clone released the other owner, then the old value's destructor panicked inside the call{}: the handle still points at {:#x} (the old value lived at {:#x}, freed) instead of the fresh copy", i, kind, if unwound { "" } else { " (no unwind reached the caller)" }, now_addr, old_addr),
                    );
                    // never touch that handle again
                    let h = self.take(i);
                    std::mem::forget(h);
                    let hi = i.max(j);
                    let lo = i.min(j);
                    self.slots.remove(hi);
                    self.slots.remove(lo);
                } else {
                    let p = peek(&self.slots[i].h);
                    let block = block_for::<P>(now_addr).unwrap_or_else(alloc::Block::none);
                    let mut kinds = std::collections::BTreeSet::new();
                    kinds.insert(kind);
                    self.allocs.push(AllocM { owners: 1, tok_id: p.id, val: old_val, block, data_addr: now_addr, alive: true, moved_out: false, died_step: 0, created_kind: kind, kinds, last_release_kind: None });
                    let ni = self.allocs.len() - 1;
                    self.slots[i].alloc = ni;
                    self.slots.remove(j);
                }
                self.facts.drop_panics += 1;
                self.log(|| format!("make_mut on slot {} ({:?}, alloc #{}): Clone released the other owner (slot {}), the old value's destructor panicked inside the call (unwound: {})", i, kind, ai, j, unwound));
                return;
            }
        }
        let clones_before = tok::clones();
        // while the payload's Clone::clone runs inside make_mut, the OTHER owners of the old allocation must read the
        // count the model has: the handle being detached still owns it, nothing more (a copy-on-write that clones
        // the handle first shows one owner too many to a payload that looks at its own count while cloning)
        let wrong_during_clone: std::cell::Cell<Option<(usize, usize)>> = std::cell::Cell::new(None);
        let (left, right) = self.slots.split_at_mut(i);
        let (mid, right) = right.split_at_mut(1);
        let others: Vec<&Slot<P>> = left.iter().chain(right.iter()).filter(|sl| sl.alloc == ai).collect();
        let owners_now = owners as usize;
        let obs = |what: &'static str| {
            if what == "clone" {
                for sl in &others {
                    for (_n, cnt) in counts(&sl.h) {
                        if cnt != owners_now && wrong_during_clone.get().is_none() {
                            wrong_during_clone.set(Some((cnt, owners_now)));
                        }
                    }
                }
            }
        };
        let (how, eff) = tok::with_observer(&obs, || match &mut mid[0].h {
            H::Arc(a) => {
                if pick(b, 2) == 0 {
                    let (_, e) = track(|| Arc::make_mut(a).setp(newv));
                    ("Arc::make_mut", e)
                } else {
                    let (_, e) = track(|| (**Arc::make_unique(a)).setp(newv));
                    ("Arc::make_unique", e)
                }
            }
            H::Off(o) => {
                let (_, e) = track(|| o.make_mut().setp(newv));
                ("OffsetArc::make_mut", e)
            }
            H::Hs(h) => {
                let (_, e) = track(|| Arc::make_mut(h).slice.setp(newv));
                ("Arc<HeaderSlice>::make_mut", e)
            }
            H::Uniq(u) => {
                let (_, e) = track(|| (**u).setp(newv));
                ("UniqueArc::deref_mut", e)
            }
            _ => unreachable!(),
        });
        drop(others);
        if let Some((seen, want)) = wrong_during_clone.get() {
            viol::report(&["C04", "C08"], "N.count-during-clone", format!("{}: while the payload's Clone::clone ran, another owner of the allocation being detached saw count {} but {} owning handles exist", how, seen, want));
        }
        let clones = tok::clones() - clones_before;
        let p = peek(&self.slots[i].h);
        let da = data_addr(&self.slots[i].h);
        if !sole && !P::ZST {
            // mutable access must not have been granted to the value the other owners still hold
            let old = self.allocs[ai].val;
            for (sj, s) in self.slots.iter().enumerate() {
                if sj != i && s.alloc == ai {
                    let q = peek(&s.h);
                    if q.ok && q.val == newv && newv != old {
                        viol::report(
                            &["C08", "C03"],
                            "W.write-through-shared",
                            format!("{}: the value had {} owners, yet the write of {} is visible through slot {} ({:?}): mutable access was granted to a shared value", how, owners, newv, sj, s.h.kind()),
                        );
                        break;
                    }
                }
            }
        }
        if sole {
            self.facts.makemut_inplace = true;
            if clones != 0 {
                viol::report(&["C08", "C03"], "W.spurious-clone", format!("{}: sole owner (the in-place branch must be taken) but Clone::clone ran {} times", how, clones));
            }
            if da != self.allocs[ai].data_addr || !eff.allocs.is_empty() {
                viol::report(&["C08", "C03"], "W.moved", format!("{}: sole owner but the handle now points to another allocation ({} new blocks)", how, eff.allocs.len()));
            }
            if !P::ZST {
                self.allocs[ai].val = newv;
            }
        } else {
            if nonarc {
                self.facts.makemut_shared_nonarc = true;
            }
            if clones != 1 {
                viol::report(PW, "W.clone-count", format!("{}: shared ({} owners) but Clone::clone ran {} times", how, owners, clones));
            }
            if da == self.allocs[ai].data_addr {
                viol::report(
                    &["C08", "C03"],
                    "W.not-redirected",
                    format!("{}: {} owners but the handle still points at the shared allocation and was written through", how, owners),
                );
                // model: the shared value was mutated in place; keep the model truthful so later steps are comparable
                if !P::ZST {
                    self.allocs[ai].val = newv;
                }
            } else {
                // fresh allocation
                let block = block_for::<P>(da).unwrap_or_else(alloc::Block::none);
                let survivors = eff.allocs.iter().filter(|b| alloc::block_by_seq(b.seq).map(|x| x.live).unwrap_or(false)).count();
                if survivors != 1 {
                    viol::report(PW, "W.alloc-effect", format!("{}: expected one new block, got {}", how, survivors));
                }
                let mut kinds = std::collections::BTreeSet::new();
                kinds.insert(kind);
                self.allocs.push(AllocM {
                    owners: 1,
                    tok_id: p.id,
                    val: if P::ZST { 0 } else { newv },
                    block,
                    data_addr: da,
                    alive: true,
                    moved_out: false,
                    died_step: 0,
                    created_kind: kind,
                    kinds,
                    last_release_kind: None,
                });
                if P::ZST {
                    self.zst_expected_live += 1;
                }
                let ni = self.allocs.len() - 1;
                self.slots[i].alloc = ni;
                self.released(ai, kind, false);
                // the previous allocation must have lost exactly one owner
                let expect = self.allocs[ai].owners as usize;
                for (sj, s) in self.slots.iter().enumerate() {
                    if sj != i && s.alloc == ai {
                        for (n, c) in counts(&s.h) {
                            if c != expect {
                                viol::report(PW, "W.old-owners", format!("{}: afterwards {} on the previous allocation (slot {}, {:?}) reports {} but it must have lost exactly one owner ({} left)", how, n, sj, s.h.kind(), c, expect));
                            }
                        }
                    }
                }
                // the copy must be solely owned
                for (n, c) in counts(&self.slots[i].h) {
                    if c != 1 {
                        viol::report(PW, "W.copy-count", format!("{}: the fresh copy reports {} = {}", how, n, c));
                    }
                }
            }
        }
        if !P::ZST && (p.val != newv || !p.ok) {
            viol::report(PW, "W.write-lost", format!("{}: wrote {} but the handle reads {:?}", how, newv, p));
        }
        let na = self.slots[i].alloc;
        self.log(|| format!("{} + write {} on slot {} ({:?}, alloc #{}, {} owners): clones {}, now alloc #{}", how, newv, i, kind, ai, owners, clones, na));
    }

    fn op_unwrap(&mut self, i0: usize, b: u8) {
        let Some(i) = self.find(i0, |k| matches!(k, Kind::Arc)) else { return self.op_read(i0) };
        let ai = self.slots[i].alloc;
        let owners = self.allocs[ai].owners;
        let sole = owners == 1;
        let id = self.allocs[ai].tok_id;
        let H::Arc(a) = self.take(i) else { unreachable!() };
        let addr = Arc::as_ptr(&a) as usize;
        let clones_before = tok::clones();
        let which = pick(b, 4);
        let how: &'static str;
        enum R<P: SizedPayload> {
            Val(P),
            Back(Arc<P>),
            Unique(UniqueArc<P>),
        }
        let r: R<P> = match which {
            0 => {
                how = "Arc::try_unwrap";
                match lib!(Arc::try_unwrap(a)) {
                    Ok(v) => R::Val(v),
                    Err(a) => R::Back(a),
                }
            }
            1 => {
                how = "Arc::try_unique";
                match lib!(Arc::try_unique(a)) {
                    Ok(u) => R::Unique(u),
                    Err(a) => R::Back(a),
                }
            }
            2 => {
                how = "UniqueArc::try_from";
                match lib!(UniqueArc::try_from(a)) {
                    Ok(u) => R::Unique(u),
                    Err(a) => R::Back(a),
                }
            }
            _ => {
                how = "Arc::unwrap_or_clone";
                R::Val(lib!(Arc::unwrap_or_clone(a)))
            }
        };
        let clones = tok::clones() - clones_before;
        match r {
            R::Val(v) => {
                if which == 3 && !sole {
                    // a clone comes back, one owner released
                    self.facts.unwrap_decline = true;
                    let p = v.peekp();
                    if clones != 1 {
                        viol::report(PX, "X.clone-count", format!("unwrap_or_clone on a shared value ran Clone::clone {} times", clones));
                    }
                    if !P::ZST && ((id != rt::tok::NONE && p.id == id) || p.val != self.allocs[ai].val || !p.ok) {
                        viol::report(PX, "X.clone-value", format!("unwrap_or_clone on a shared value returned {:?}; expected a fresh clone of val {}", p, self.allocs[ai].val));
                    }
                    self.released(ai, Kind::Arc, false);
                    self.slots.remove(i);
                    lib!(drop(v));
                } else {
                    if !sole {
                        viol::report(&["C09", "C03"], "X.verdict", format!("{} moved the value out although {} owning handles exist (alloc #{})", how, owners, ai));
                    }
                    self.facts.unwrap_success = true;
                    if clones != 0 {
                        viol::report(PX, "X.spurious-clone", format!("{} on a sole owner ran Clone::clone {} times", how, clones));
                    }
                    self.check_moved_out(&v, ai, how);
                    self.outs.push((v, id));
                    self.released(ai, Kind::Arc, true);
                    self.slots.remove(i);
                }
            }
            R::Unique(u) => {
                if !sole {
                    viol::report(&["C09", "C03"], "X.verdict", format!("{} granted sole ownership although {} owning handles exist (alloc #{})", how, owners, ai));
                }
                self.facts.unwrap_success = true;
                if &*u as *const P as usize != addr {
                    viol::report(PX, "X.unique-addr", format!("{} returned a UniqueArc to a different allocation", how));
                }
                self.slots[i].h = H::Uniq(u);
                self.note_kind(ai, Kind::Uniq);
            }
            R::Back(a) => {
                if sole {
                    viol::report(&["C09", "C03"], "X.verdict", format!("{} declined although the handle is the sole owner (alloc #{})", how, ai));
                }
                self.facts.unwrap_decline = true;
                if Arc::as_ptr(&a) as usize != addr {
                    viol::report(PX, "X.decline-handle", format!("{} declined but returned a handle to a different allocation", how));
                }
                if clones != 0 {
                    viol::report(PX, "X.spurious-clone", format!("{} declined but ran Clone::clone {} times", how, clones));
                }
                self.slots[i].h = H::Arc(a);
            }
        }
        self.log(|| format!("{} on slot {} (alloc #{}, {} owners)", how, i, ai, owners));
    }

    fn op_move(&mut self, i: usize, b: u8, c: u8) {
        self.facts.moves += 1;
        let n = self.slots.len();
        match pick(b, 5) {
            3 | 4 => {
                // Clone::clone_from (a provided trait method the handle types may override): slot i becomes
                // another owner of slot j's allocation and gives up its own
                let kind = self.slots[i].h.kind();
                let start = pick(c, n);
                let j = (0..n).map(|d| (start + d) % n).find(|&j| j != i && self.slots[j].h.kind() == kind);
                let Some(j) = j else { return self.op_read(i) };
                if !matches!(kind, Kind::Arc | Kind::Off | Kind::U1 | Kind::U2 | Kind::Dyn | Kind::Hs) {
                    return self.op_read(i);
                }
                let (ai, aj) = (self.slots[i].alloc, self.slots[j].alloc);
                let via_container = pick(b, 5) == 4;
                let mut dst = self.take(i);
                {
                    let src = &self.slots[j].h;
                    macro_rules! cf {
                        ($d:expr, $s:expr) => {
                            if via_container {
                                let mut od = Some(unsafe { std::ptr::read($d) });
                                let os = Some(unsafe { std::ptr::read($s) });
                                lib!(od.clone_from(&os));
                                std::mem::forget(os);
                                unsafe { std::ptr::write($d, od.unwrap()) };
                            } else {
                                lib!($d.clone_from($s))
                            }
                        };
                    }
                    match (&mut dst, src) {
                        (H::Arc(d), H::Arc(s)) => cf!(d, s),
                        (H::Off(d), H::Off(s)) => cf!(d, s),
                        (H::U1(d), H::U1(s)) => cf!(d, s),
                        (H::U2(d), H::U2(s)) => cf!(d, s),
                        (H::Dyn(d), H::Dyn(s)) => cf!(d, s),
                        (H::Hs(d), H::Hs(s)) => cf!(d, s),
                        _ => {}
                    }
                }
                self.slots[i].h = dst;
                self.slots[i].alloc = aj;
                if ai != aj {
                    self.allocs[aj].owners += 1;
                    self.note_kind(aj, kind);
                    self.released(ai, kind, false);
                }
                if kind != Kind::Arc {
                    self.facts.clones_nonarc += 1;
                }
                self.facts.clone_froms += 1;
                let (oi, oj) = (self.allocs[ai].owners, self.allocs[aj].owners);
                self.log(|| format!("clone_from{}: slot {} ({:?}, alloc #{}, owners now {}) <- slot {} (alloc #{}, owners now {})", if via_container { " (Option<_>)" } else { "" }, i, kind, ai, oi, j, aj, oj));
            }
            0 => {
                let j = pick(c, n);
                self.slots.swap(i, j);
                self.log(|| format!("move: swap slots {} and {}", i, j));
            }
            1 => {
                let h = self.take(i);
                let bx = Box::new(h);
                let v = vec![*bx];
                let h = v.into_iter().next().unwrap();
                self.slots[i].h = h;
                self.log(|| format!("move: slot {} through a Box and a Vec", i));
            }
            _ => {
                let h = self.take(i);
                let o = Some(h);
                let h = std::hint::black_box(o).unwrap();
                self.slots[i].h = h;
                self.log(|| format!("move: slot {} through an Option", i));
            }
        }
    }

    fn op_compare(&mut self, i: usize, b: u8, c: u8) {
        let j = pick(c, self.slots.len());
        let (vi, vj) = (self.allocs[self.slots[i].alloc].val, self.allocs[self.slots[j].alloc].val);
        let mut res: Option<bool> = None;
        if P::ZST {
            return self.op_read(i);
        }
        // while the payload's own eq / partial_cmp / hash / fmt runs, every count accessor of every
        // handle must still report the model's owners (comparing / hashing / formatting is count-neutral
        // "not even while the borrow is in use")
        let seen = std::cell::Cell::new(false);
        {
            let slots = &self.slots;
            let allocs = &self.allocs;
            let obs = |what: &'static str| {
                seen.set(true);
                for (sj, s) in slots.iter().enumerate() {
                    let owners = allocs[s.alloc].owners as usize;
                    for (n, cnt) in counts(&s.h) {
                        if cnt != owners {
                            viol::report(PN, "N.count-during-callback", format!("while the payload's {} ran, {} on slot {} ({:?}) reported {} but {} owning handles exist", what, n, sj, s.h.kind(), cnt, owners));
                        }
                    }
                }
            };
            let which = pick(b, 4);
            tok::with_observer(&obs, || match (&slots[i].h, &slots[j].h) {
                (H::Arc(x), H::Arc(y)) => match which {
                    0 => res = Some(lib!(x == y)),
                    1 => {
                        let _ = lib!(x.partial_cmp(y));
                    }
                    2 => {
                        let mut h = std::collections::hash_map::DefaultHasher::new();
                        lib!(std::hash::Hash::hash(x, &mut h));
                    }
                    _ => {
                        let _ = lib!(format!("{:?}", x));
                    }
                },
                (H::Off(x), H::Off(y)) => {
                    if which < 2 {
                        res = Some(lib!(x == y));
                    } else {
                        let _ = lib!(format!("{:?}", x));
                    }
                }
                (H::Hs(x), H::Hs(y)) => match which {
                    0 => res = Some(lib!(x == y)),
                    1 => {
                        let _ = lib!(x.partial_cmp(y));
                    }
                    _ => {
                        let _ = lib!(format!("{:?}", x));
                    }
                },
                (H::U1(x), H::U1(y)) => {
                    if which < 2 {
                        res = Some(lib!(x == y));
                    } else {
                        let _ = lib!(format!("{:?}", x));
                    }
                }
                (H::U2(x), H::U2(y)) => {
                    if which < 2 {
                        res = Some(lib!(x == y));
                    } else {
                        let _ = lib!(format!("{:?}", x));
                    }
                }
                (H::Arc(x), H::Off(y)) | (H::Off(y), H::Arc(x)) => {
                    res = Some(lib!(x.borrow_arc() == y.borrow_arc()));
                }
                _ => {}
            });
        }
        if seen.get() {
            self.facts.count_in_callback_at3 |= self.allocs[self.slots[i].alloc].owners >= 3;
        }
        // the same comparison with the payload's callback panicking: afterwards every handle must still be
        // valid with an accurate count (the check_all after this step verifies values and liveness)
        if c >= 128 {
            let r = {
                let slots = &self.slots;
                tok::panic_at(1);
                let r = catch_unwind(AssertUnwindSafe(|| match (&slots[i].h, &slots[j].h) {
                    (H::Arc(x), H::Arc(y)) => lib!(x == y),
                    (H::Off(x), H::Off(y)) => lib!(x == y),
                    (H::U1(x), H::U1(y)) => lib!(x == y),
                    (H::U2(x), H::U2(y)) => lib!(x == y),
                    (H::Hs(x), H::Hs(y)) => lib!(x == y),
                    _ => false,
                }));
                tok::panic_at(0);
                r
            };
            drop(r);
            for (sj, s) in self.slots.iter().enumerate() {
                if sj == i || sj == j {
                    let owners = self.allocs[s.alloc].owners as usize;
                    for (n, cnt) in counts(&s.h) {
                        if cnt != owners {
                            viol::report(
                                &["C07", "C04", "C12"],
                                "N.count-after-panicking-compare",
                                format!("after a comparison whose payload eq panicked, {} on slot {} ({:?}) reports {} but {} owning handles exist", n, sj, s.h.kind(), cnt, owners),
                            );
                        }
                    }
                }
            }
        }
        if let Some(r) = res {
            if r != (vi == vj) {
                viol::report(&["C14"], "E.eq", format!("slots {} and {} hold values {} and {} but == answered {}", i, j, vi, vj, r));
            }
        }
        // pointer identity predicates: true exactly for handles to one allocation (also across handle kinds,
        // through their borrows)
        {
            let same = self.slots[i].alloc == self.slots[j].alloc;
            let mut preds: Vec<(&'static str, bool)> = vec![];
            fn bor<P: SizedPayload>(h: &H<P>) -> Option<ArcBorrow<'_, P>> {
                match h {
                    H::Arc(a) => Some(a.borrow_arc()),
                    H::Off(o) => Some(o.borrow_arc()),
                    H::U1(u) => u.as_first(),
                    H::Raw(p) => Some(unsafe { ArcBorrow::from_ptr(*p) }),
                    _ => None,
                }
            }
            match (&self.slots[i].h, &self.slots[j].h) {
                (H::Arc(x), H::Arc(y)) => preds.push(("Arc::ptr_eq", lib!(Arc::ptr_eq(x, y)))),
                (H::U1(x), H::U1(y)) => preds.push(("ArcUnion::ptr_eq", lib!(ArcUnion::ptr_eq(x, y)))),
                (H::U2(x), H::U2(y)) => preds.push(("ArcUnion::ptr_eq", lib!(ArcUnion::ptr_eq(x, y)))),
                (H::Dyn(x), H::Dyn(y)) => preds.push(("Arc<dyn>::ptr_eq", lib!(Arc::ptr_eq(x, y)))),
                (H::Hs(x), H::Hs(y)) => preds.push(("Arc<HeaderSlice>::ptr_eq", lib!(Arc::ptr_eq(x, y)))),
                _ => {}
            }
            if let (Some(x), Some(y)) = (bor(&self.slots[i].h), bor(&self.slots[j].h)) {
                preds.push(("ArcBorrow::ptr_eq", lib!(ArcBorrow::ptr_eq(&x, &y))));
            }
            for (w, r) in preds {
                if r != same {
                    viol::report(PP, "P.ptr-eq", format!("{} on slots {} ({:?}, alloc #{}) and {} ({:?}, alloc #{}) answered {}", w, i, self.slots[i].h.kind(), self.slots[i].alloc, j, self.slots[j].h.kind(), self.slots[j].alloc, r));
                }
            }
        }
        self.log(|| format!("compare/hash/format slots {} and {} (variant {}) -> {:?}", i, j, b, res));
    }

    /// Re-entrancy: inside a with_arc-style callback of slot `i`, clone the lent handle and call a
    /// uniqueness-gated API on the clone (which now co-owns the value with everyone else).
    fn op_nested(&mut self, i0: usize, b: u8, c: u8) {
        let Some(i) = self.find(i0, |k| matches!(k, Kind::Arc | Kind::Off | Kind::Raw)) else { return self.op_read(i0) };
        let ai = self.slots[i].alloc;
        let owners = self.allocs[ai].owners as usize;
        let which = pick(c, 5);
        let clones_before = tok::clones();
        // what happens inside the callback, given the lent &Arc<P>; returns (verdict/ok, count seen, description)
        let inner = |x: &Arc<P>| -> (bool, usize, &'static str) {
            let seen = Arc::count(x);
            let mut c2 = x.clone(); // owners + 1 now
            let r = match which {
                0 => (Arc::get_mut(&mut c2).is_none() && !c2.is_unique(), "get_mut / is_unique on a clone inside the callback must decline"),
                1 => match Arc::try_unwrap(c2) {
                    Ok(v) => {
                        std::mem::forget(v);
                        return (false, seen, "try_unwrap on a clone inside the callback succeeded");
                    }
                    Err(back) => {
                        c2 = back;
                        (true, "try_unwrap on a clone inside the callback declines")
                    }
                },
                2 => match Arc::try_unique(c2) {
                    Ok(u) => {
                        std::mem::forget(u);
                        return (false, seen, "try_unique on a clone inside the callback succeeded");
                    }
                    Err(back) => {
                        c2 = back;
                        (true, "try_unique on a clone inside the callback declines")
                    }
                },
                3 => {
                    // copy-on-write on the clone: must copy (shared), the copy is dropped right here
                    let before = Arc::as_ptr(&c2);
                    let _ = Arc::make_mut(&mut c2).peekp();
                    (Arc::as_ptr(&c2) != before && Arc::count(&c2) == 1, "make_mut on a clone inside the callback must redirect to a sole-owner copy")
                }
                _ => {
                    let v = Arc::unwrap_or_clone(c2.clone());
                    let ok = v.peekp().ok;
                    drop(v);
                    (ok, "unwrap_or_clone on a clone inside the callback returns a clone")
                }
            };
            drop(c2);
            (r.0, seen, r.1)
        };
        let (ok, seen, what) = match &self.slots[i].h {
            H::Arc(a) => match pick(b, 2) {
                0 => lib!(a.borrow_arc().with_arc(inner)),
                _ => lib!(a.with_raw_offset_arc(|o| o.with_arc(inner))),
            },
            H::Off(o) => lib!(o.with_arc(inner)),
            H::Raw(p) => lib!(unsafe { ArcBorrow::from_ptr(*p) }.with_arc(inner)),
            _ => unreachable!(),
        };
        if !ok {
            viol::report(&["C03", "C09", "C08"], "U.nested-verdict", format!("{} (slot {}, alloc #{}, {} owners outside)", what, i, ai, owners));
        }
        self.cb_count("nested callback", seen, ai);
        // the copy made by make_mut / unwrap_or_clone inside the callback has been dropped again
        let expect_clones = if which >= 3 { 1 } else { 0 };
        let clones = tok::clones() - clones_before;
        if !P::ZST && clones != expect_clones {
            viol::report(&["C08", "C09"], "W.nested-clones", format!("{}: Clone::clone ran {} times (expected {})", what, clones, expect_clones));
        }
        self.log(|| format!("nested: {} on slot {} (alloc #{}, {} owners)", what, i, ai, owners));
    }

    /// Release everything in a generated order; afterwards nothing may be alive or leaked.
    pub fn teardown(&mut self, order: &[u8]) {
        let mut k = 0;
        while !self.slots.is_empty() {
            self.step += 1;
            alloc::set_step(self.step);
            let b = order.get(k).copied().unwrap_or(0);
            k += 1;
            let i = pick(b, self.slots.len());
            self.op_release(i, 0);
            self.check_all();
        }
        self.step += 1;
        alloc::set_step(self.step);
        // values moved out to the caller must still be alive, and die exactly now
        let outs = std::mem::take(&mut self.outs);
        for (v, id) in outs {
            let p = v.peekp();
            if !P::ZST && (!p.ok || p.id != id) {
                viol::report(PX, "X.moved-out-dropped", format!("a value moved out to the caller (tok {}) is no longer alive: {:?}", id as i64, p));
            }
            if P::ZST {
                self.zst_expected_live -= 1;
            }
            drop(v);
        }
        if P::ZST {
            if P::live_now() != Some(0) {
                viol::report(&["C01"], "L.zst-leak", format!("{:?} zero-sized values alive after everything was released", P::live_now()));
            }
        }
        for id in tok::live_ids() {
            viol::report(&["C01"], "L.leak-value", format!("tok {} was never destroyed although every handle was released", id));
        }
        for b in alloc::live_blocks() {
            viol::report(&["C01", "C05"], "L.leak-block", format!("block #{} (size {}, align {}) was never freed although every handle was released", b.seq, b.size, b.align));
        }
    }
}

impl<P: SizedPayload> Engine for SizedEngine<P> {
    fn name(&self) -> String {
        format!("hist-sized<{}>/{}", P::tyname(), self.prof.name)
    }
    fn params_len(&self) -> usize {
        12
    }
    fn ops_range(&self) -> (usize, usize) {
        (1, self.max_ops)
    }
    fn run(&self, case: &ByteCase, trace: bool) -> CaseReport {
        let _ = alloc::case_end();
        tok::reset();
        let _ = viol::take();
        #[cfg(feature = "arc-swap")]
        crate::warm_arc_swap();
        let mut st: St<P> = St::new(trace);
        let r = catch_unwind(AssertUnwindSafe(|| {
            let rule = self.prof.rule;
            for op in &case.ops {
                st.step(&self.table, *op);
                if viol::any_for(rule) {
                    break;
                }
            }
            if !viol::any_for(rule) {
                st.teardown(&case.params);
            }
        }));
        if r.is_err() {
            viol::report(PANY, "M.panic", "unexpected panic inside a library call of the history".into());
        }
        let viols = viol::take();
        // whatever is left is forgotten, not dropped: a broken handle must not take the worker down
        let facts = st.facts.clone();
        let trace_out = st.trace.take().unwrap_or_default();
        let kinds_max = st.allocs.iter().map(|a| a.kinds.len()).max().unwrap_or(0);
        let last_differs = st.allocs.iter().any(|a| !a.alive && a.last_release_kind.map(|k| k != a.created_kind).unwrap_or(false));
        if !viols.is_empty() {
            std::mem::forget(st);
        } else {
            drop(st);
        }
        let _ = alloc::case_end();
        let nontrivial = match self.prof.rule {
            "C01" => kinds_max >= 2 && (facts.conversions + facts.borrows) >= 1 && last_differs,
            "C04" => facts.accessor_kinds_at3.len() >= 3 && facts.count_in_callback_at3,
            "C03" => facts.uniq_success_after_decline,
            "C08" => facts.makemut_shared_nonarc,
            "C09" => facts.unwrap_decline && facts.unwrap_success,
            "C11" => facts.roundtrip_with_clone_between || facts.moves >= 1 && facts.conversions >= 2,
            "C12" => facts.union_clone && facts.union_last_owner,
            _ => kinds_max >= 2,
        };
        let mut labels: Vec<&'static str> = vec![];
        if kinds_max >= 3 {
            labels.push("alloc-with>=3-kinds");
        }
        if last_differs {
            labels.push("last-owner-kind!=creator");
        }
        if facts.drop_panics >= 1 {
            labels.push("a payload destructor panicked during a release");
        }
        if facts.clone_froms >= 1 {
            labels.push("clone_from");
        }
        if facts.conversions >= 3 {
            labels.push(">=3-conversions");
        }
        if facts.clones_nonarc >= 1 {
            labels.push("clone-via-non-Arc");
        }
        if facts.count_in_callback_at3 {
            labels.push("count-in-callback@>=3");
        }
        if facts.makemut_shared_nonarc {
            labels.push("make_mut-shared-with-non-Arc");
        }
        if facts.makemut_inplace {
            labels.push("make_mut-in-place");
        }
        if facts.unwrap_decline {
            labels.push("unwrap-declined");
        }
        if facts.unwrap_success {
            labels.push("unwrap-succeeded");
        }
        if facts.uniq_success_after_decline {
            labels.push("uniq-decline(non-Arc co-owner)-then-success");
        }
        if facts.union_last_owner {
            labels.push("union-is-last-owner");
        }
        if case.ops.len() >= 24 {
            labels.push(">=24-ops");
        }
        CaseReport { viols, nontrivial, labels, trace: trace_out }
    }
}

#[allow(dead_code)]
fn _unused() {
    let _ = (PI, PP);
}
