//! History and schedule engines (monomorphised here, exposed as boxed engines).
pub mod hist_sized;
pub mod hist_sized_ops;
pub mod hist_thin;
pub mod sched;
pub mod sched_thin;

use rt::run::Engine;
use rt::tok::{Big, Bump8, Plain16, Plain8, Tok1, Tok16, Tok4, Tok64, Tok8, Tok8b, TokZ};

#[cfg(feature = "arc-swap")]
pub fn warm_arc_swap() {
    use std::sync::Once;
    static W: Once = Once::new();
    W.call_once(|| {
        let s = arc_swap::ArcSwapAny::<triomphe::Arc<u8>>::new(triomphe::Arc::new(0u8));
        let _ = s.load_full();
        let _ = s.load();
    });
}

pub const SIZED_SHAPES: [&str; 5] = ["tok8", "tok1", "tok16", "tok64", "tokz"];

pub fn sized_engine(shape: &str, prop: &str, max_ops: usize) -> Box<dyn Engine> {
    use hist_sized::SizedEngine;
    match shape {
        "tok1" => Box::new(SizedEngine::<Tok1>::new(prop, max_ops)),
        "tok16" => Box::new(SizedEngine::<Tok16>::new(prop, max_ops)),
        "tok64" => Box::new(SizedEngine::<Tok64>::new(prop, max_ops)),
        "tokz" => Box::new(SizedEngine::<TokZ<0>>::new(prop, max_ops)),
        "plain8" => Box::new(SizedEngine::<Plain8>::new(prop, max_ops)),
        "big" => Box::new(SizedEngine::<Big<2100>>::new(prop, max_ops)),
        // more than 64 KiB inline (code paths keyed on a larger size threshold)
        "huge" => Box::new(SizedEngine::<Big<70_000>>::new(prop, max_ops)),
        _ => Box::new(SizedEngine::<Tok8>::new(prop, max_ops)),
    }
}

pub const THIN_SHAPES: [&str; 5] = ["8b/8", "1/16", "16/1", "4/4", "8b/z"];

pub fn thin_engine(shape: &str, prop: &'static str, max_ops: usize) -> Box<dyn Engine> {
    use hist_thin::ThinEngine;
    match shape {
        "1/16" => Box::new(ThinEngine::<Tok1, Tok16>::new(prop, max_ops)),
        "16/1" => Box::new(ThinEngine::<Tok16, Tok1>::new(prop, max_ops)),
        "4/4" => Box::new(ThinEngine::<Tok4, Tok4>::new(prop, max_ops)),
        "8b/z" => Box::new(ThinEngine::<Tok8b, TokZ<2>>::new(prop, max_ops)),
        _ => Box::new(ThinEngine::<Tok8b, Tok8>::new(prop, max_ops)),
    }
}

pub fn sched_engine(shape: &str, prop: &str, max_ops: usize) -> Box<dyn Engine> {
    use sched::SchedEngine;
    match shape {
        "tok16" => Box::new(SchedEngine::<Tok16>::new(prop, max_ops)),
        "plain8" => Box::new(SchedEngine::<Plain8>::new(prop, max_ops)),
        "bump8" => Box::new(SchedEngine::<Bump8>::new(prop, max_ops)),
        "plain16" => Box::new(SchedEngine::<Plain16>::new(prop, max_ops)),
        "tokz" => Box::new(SchedEngine::<TokZ<0>>::new(prop, max_ops)),
        // a payload of more than 4 KiB (code paths keyed on size_of::<T>())
        "big4k" => Box::new(SchedEngine::<Big<4200>>::new(prop, max_ops)),
        _ => Box::new(SchedEngine::<Tok8>::new(prop, max_ops)),
    }
}

pub fn sched_thin_engine(shape: &str, prop: &'static str, max_ops: usize) -> Box<dyn Engine> {
    use sched_thin::SchedThinEngine;
    match shape {
        "1/16" => Box::new(SchedThinEngine::<Tok1, Tok16>::new(prop, max_ops)),
        "plain" => Box::new(SchedThinEngine::<Plain8, Plain8>::new(prop, max_ops)),
        _ => Box::new(SchedThinEngine::<Tok8b, Tok8>::new(prop, max_ops)),
    }
}
