//! History engine, sized world: a pool of handles of every kind to a few allocations
//! holding one identity-tracked payload each, driven by generated operation records
//! and checked against a reference model (owner count per allocation) after every step.

use std::collections::BTreeSet;
use std::marker::PhantomData;
use std::mem::MaybeUninit;
use std::panic::{catch_unwind, AssertUnwindSafe};

use rt::alloc::{self, track, Block};
use rt::case::{pick, ByteCase};
use rt::run::{CaseReport, Engine};
use rt::tok::{self, Payload, Probe, State as TokState, Tok1b, NONE};
use rt::viol;
use triomphe::{Arc, ArcBorrow, ArcUnion, ArcUnionBorrow, HeaderSlice, OffsetArc, UniqueArc};

pub type Alt = Tok1b;

pub trait SizedPayload: Payload + Probe + Default + Send + Sync + PartialEq + PartialOrd + std::hash::Hash + std::fmt::Debug {}
impl<T: Payload + Probe + Default + Send + Sync + PartialEq + PartialOrd + std::hash::Hash + std::fmt::Debug> SizedPayload for T {}

#[derive(Clone, Copy, Debug, PartialEq, Eq, PartialOrd, Ord)]
pub enum Kind {
    Arc,
    Off,
    U1,
    U2,
    Uniq,
    Raw,
    Dyn,
    Hs,
    Swap,
}

pub enum H<P: SizedPayload> {
    Arc(Arc<P>),
    Off(OffsetArc<P>),
    U1(ArcUnion<P, Alt>),
    U2(ArcUnion<Alt, P>),
    Uniq(UniqueArc<P>),
    Raw(*const P),
    Dyn(Arc<dyn Probe>),
    Hs(Arc<HeaderSlice<(), P>>),
    #[cfg(feature = "arc-swap")]
    Swap(Box<arc_swap::ArcSwapAny<Arc<P>>>),
    #[allow(dead_code)]
    Gone,
}

impl<P: SizedPayload> H<P> {
    pub fn kind(&self) -> Kind {
        match self {
            H::Arc(_) => Kind::Arc,
            H::Off(_) => Kind::Off,
            H::U1(_) => Kind::U1,
            H::U2(_) => Kind::U2,
            H::Uniq(_) => Kind::Uniq,
            H::Raw(_) => Kind::Raw,
            H::Dyn(_) => Kind::Dyn,
            H::Hs(_) => Kind::Hs,
            #[cfg(feature = "arc-swap")]
            H::Swap(_) => Kind::Swap,
            H::Gone => Kind::Arc,
        }
    }
}

pub struct Slot<P: SizedPayload> {
    pub h: H<P>,
    pub alloc: usize,
}

#[derive(Clone, Debug)]
pub struct AllocM {
    pub owners: u32,
    pub tok_id: u32,
    pub val: u64,
    pub block: Block,
    pub data_addr: usize,
    pub alive: bool,
    pub moved_out: bool,
    pub died_step: u32,
    pub created_kind: Kind,
    pub kinds: BTreeSet<Kind>,
    pub last_release_kind: Option<Kind>,
}

/// Which op families a profile favours (weights over `OpK`).
#[derive(Clone, Copy, Debug, PartialEq, Eq)]
pub enum OpK {
    Read,
    Create,
    Clone,
    Convert,
    Release,
    Borrow,
    Uniq,
    MakeMut,
    Unwrap,
    Move,
    Compare,
    /// gated APIs called on a clone INSIDE a with_arc-style callback (re-entrancy)
    Nested,
}

pub const ALL_OPK: [OpK; 12] = [
    OpK::Read,
    OpK::Create,
    OpK::Clone,
    OpK::Convert,
    OpK::Release,
    OpK::Borrow,
    OpK::Uniq,
    OpK::MakeMut,
    OpK::Unwrap,
    OpK::Move,
    OpK::Compare,
    OpK::Nested,
];

#[derive(Clone, Debug)]
pub struct Profile {
    pub name: &'static str,
    pub weights: [u32; 12],
    /// which property's non-triviality rule to evaluate
    pub rule: &'static str,
}

impl Profile {
    pub fn table(&self) -> [OpK; 256] {
        let total: u32 = self.weights.iter().sum();
        let mut t = [OpK::Read; 256];
        let mut acc = 0u32;
        let mut k = 0usize;
        for i in 0..256u32 {
            while k < 11 && (acc + self.weights[k]) * 256 <= i * total {
                acc += self.weights[k];
                k += 1;
            }
            // skip zero-weight entries
            let mut kk = k;
            while kk < 11 && self.weights[kk] == 0 {
                kk += 1;
            }
            t[i as usize] = ALL_OPK[kk];
        }
        t
    }
}

pub fn profile(prop: &str) -> Profile {
    //                         Read Crea Clon Conv Rele Borr Uniq MkMu Unwr Move Comp
    match prop {
        "C01" => Profile { name: "lifecycle", weights: [1, 3, 6, 7, 5, 3, 1, 1, 1, 2, 1, 1], rule: "C01" },
        "C04" => Profile { name: "counts", weights: [1, 2, 6, 6, 3, 7, 1, 1, 1, 3, 3, 2], rule: "C04" },
        "C03" => Profile { name: "uniqueness", weights: [1, 2, 5, 4, 4, 1, 9, 2, 2, 1, 0, 3], rule: "C03" },
        "C08" => Profile { name: "copy-on-write", weights: [1, 2, 5, 4, 3, 1, 1, 9, 1, 1, 0, 2], rule: "C08" },
        "C09" => Profile { name: "unwrap", weights: [1, 3, 5, 4, 3, 1, 2, 1, 9, 1, 0, 3], rule: "C09" },
        "C11" => Profile { name: "pointers", weights: [1, 3, 5, 8, 3, 4, 1, 1, 1, 5, 3, 0], rule: "C11" },
        "C12" => Profile { name: "unions", weights: [1, 3, 6, 7, 4, 5, 1, 1, 1, 2, 2, 0], rule: "C12" },
        _ => Profile { name: "uniform", weights: [1, 2, 4, 4, 3, 3, 2, 2, 2, 2, 1, 1], rule: "any" },
    }
}

#[derive(Default, Clone, Debug)]
pub struct Facts {
    pub conversions: u32,
    pub borrows: u32,
    pub clones_nonarc: u32,
    pub accessor_kinds_at3: BTreeSet<Kind>,
    pub count_in_callback_at3: bool,
    pub uniq_decline_nonarc: BTreeSet<usize>,
    pub uniq_success_after_decline: bool,
    pub makemut_shared_nonarc: bool,
    pub makemut_inplace: bool,
    pub unwrap_decline: bool,
    pub unwrap_success: bool,
    pub union_last_owner: bool,
    pub union_clone: bool,
    pub roundtrip_with_clone_between: bool,
    pub moves: u32,
    pub drop_panics: u32,
    pub clone_froms: u32,
}

pub struct St<P: SizedPayload> {
    pub slots: Vec<Slot<P>>,
    pub allocs: Vec<AllocM>,
    pub outs: Vec<(P, u32)>,
    pub next_val: u64,
    pub step: u32,
    pub facts: Facts,
    pub trace: Option<Vec<String>>,
    pub zst_expected_live: i64,
}

pub const MAX_SLOTS: usize = 12;

const PL: &[&str] = &["C01"];
const PN: &[&str] = &["C04"];
const PU: &[&str] = &["C03"];
const PW: &[&str] = &["C08"];
const PX: &[&str] = &["C09"];
const PP: &[&str] = &["C11"];
const PV: &[&str] = &["C12"];
const PF: &[&str] = &["C05", "C01"];
const PI: &[&str] = &["C15"];
pub const PANY: &[&str] = &["C01", "C03", "C04", "C05", "C08", "C09", "C10", "C11", "C12", "C15"];

/// the tracked block holding a value at `da` (a zero-sized value sits one past the count word)
pub fn block_for<P: SizedPayload>(da: usize) -> Option<Block> {
    if std::mem::size_of::<P>() == 0 {
        alloc::classify(da.wrapping_sub(1)).or_else(|| alloc::classify(da))
    } else {
        alloc::classify(da)
    }
}

pub fn data_addr<P: SizedPayload>(h: &H<P>) -> usize {
    match h {
        H::Arc(a) => &**a as *const P as usize,
        H::Off(o) => &**o as *const P as usize,
        H::U1(u) => match u.borrow() {
            ArcUnionBorrow::First(b) => b.get() as *const P as usize,
            ArcUnionBorrow::Second(b) => b.get() as *const Alt as usize,
        },
        H::U2(u) => match u.borrow() {
            ArcUnionBorrow::First(b) => b.get() as *const Alt as usize,
            ArcUnionBorrow::Second(b) => b.get() as *const P as usize,
        },
        H::Uniq(u) => &**u as *const P as usize,
        H::Raw(p) => *p as usize,
        H::Dyn(d) => &**d as *const dyn Probe as *const () as usize,
        H::Hs(h) => &h.slice as *const P as usize,
        #[cfg(feature = "arc-swap")]
        H::Swap(s) => {
            let g = s.load();
            &**g as *const P as usize
        }
        H::Gone => 0,
    }
}

pub fn peek<P: SizedPayload>(h: &H<P>) -> tok::Peek {
    match h {
        H::Arc(a) => a.peekp(),
        H::Off(o) => o.peekp(),
        H::U1(u) => match u.borrow() {
            ArcUnionBorrow::First(b) => b.get().peekp(),
            ArcUnionBorrow::Second(_) => {
                viol::report(PV, "V.variant", "ArcUnion built with from_first reports the second variant".into());
                tok::Peek { id: NONE, val: 0, ok: false }
            }
        },
        H::U2(u) => match u.borrow() {
            ArcUnionBorrow::Second(b) => b.get().peekp(),
            ArcUnionBorrow::First(_) => {
                viol::report(PV, "V.variant", "ArcUnion built with from_second reports the first variant".into());
                tok::Peek { id: NONE, val: 0, ok: false }
            }
        },
        H::Uniq(u) => u.peekp(),
        H::Raw(p) => unsafe { (**p).peekp() },
        H::Dyn(d) => d.probe(),
        H::Hs(h) => h.slice.peekp(),
        #[cfg(feature = "arc-swap")]
        H::Swap(s) => s.load().peekp(),
        H::Gone => tok::Peek { id: NONE, val: 0, ok: false },
    }
}

/// run `f` on the value through the handle (None for kinds that only expose a trait object)
pub fn with_ref<P: SizedPayload, R>(h: &H<P>, f: impl FnOnce(&P) -> R) -> Option<R> {
    Some(match h {
        H::Arc(a) => f(a),
        H::Off(o) => f(o),
        H::U1(u) => f(u.as_first()?.get()),
        H::U2(u) => f(u.as_second()?.get()),
        H::Uniq(u) => f(u),
        H::Raw(p) => f(unsafe { &**p }),
        H::Hs(h) => f(&h.slice),
        _ => return None,
    })
}

/// every count accessor available for the kind: (accessor name, value)
pub fn counts<P: SizedPayload>(h: &H<P>) -> Vec<(&'static str, usize)> {
    match h {
        H::Arc(a) => vec![
            ("Arc::count", Arc::count(a)),
            ("Arc::strong_count", Arc::strong_count(a)),
            ("ArcBorrow::strong_count", ArcBorrow::strong_count(&a.borrow_arc())),
        ],
        H::Off(o) => vec![
            ("OffsetArc::strong_count", OffsetArc::strong_count(o)),
            ("ArcBorrow::strong_count(OffsetArc::borrow_arc)", ArcBorrow::strong_count(&o.borrow_arc())),
        ],
        H::U1(u) => vec![
            ("ArcUnion::strong_count", ArcUnion::strong_count(u)),
            ("ArcUnionBorrow::strong_count", ArcUnionBorrow::strong_count(&u.borrow())),
        ],
        H::U2(u) => vec![
            ("ArcUnion::strong_count", ArcUnion::strong_count(u)),
            ("ArcUnionBorrow::strong_count", ArcUnionBorrow::strong_count(&u.borrow())),
        ],
        H::Uniq(_) => vec![],
        H::Raw(p) => vec![("ArcBorrow::strong_count(from_ptr)", ArcBorrow::strong_count(&unsafe { ArcBorrow::from_ptr(*p) }))],
        H::Dyn(d) => vec![("Arc<dyn>::count", Arc::count(d)), ("Arc<dyn>::strong_count", Arc::strong_count(d))],
        H::Hs(h) => vec![("Arc<HeaderSlice>::count", Arc::count(h)), ("Arc<HeaderSlice>::strong_count", Arc::strong_count(h))],
        #[cfg(feature = "arc-swap")]
        H::Swap(s) => {
            let g = s.load();
            vec![("Arc::count(ArcSwap::load)", Arc::count(&g))]
        }
        H::Gone => vec![],
    }
}

impl<P: SizedPayload> St<P> {
    pub fn new(trace: bool) -> Self {
        St {
            slots: Vec::new(),
            allocs: Vec::new(),
            outs: Vec::new(),
            next_val: 1,
            step: 0,
            facts: Facts::default(),
            trace: if trace { Some(Vec::new()) } else { None },
            zst_expected_live: 0,
        }
    }
    pub fn log(&mut self, f: impl FnOnce() -> String) {
        if let Some(t) = self.trace.as_mut() {
            let s = f();
            let l = format!("step {:3}: {}", self.step, s);
            rt::run::trace_stream(&l);
            t.push(l);
        }
    }
    pub fn fresh_val(&mut self) -> u64 {
        let v = self.next_val;
        self.next_val += 1;
        v
    }

    /// Register a freshly created allocation held by `h`.
    pub fn adopt(&mut self, h: H<P>, eff: &alloc::Effects, expect_val: Option<u64>, how: &str) {
        let p = peek(&h);
        let da = data_addr(&h);
        let survivors: Vec<Block> = eff.allocs.iter().filter(|b| alloc::block_by_seq(b.seq).map(|x| x.live).unwrap_or(false)).copied().collect();
        let block = match block_for::<P>(da).or_else(|| survivors.first().copied()) {
            Some(b) => b,
            None => {
                viol::report(PF, "F.no-block", format!("{}: the new handle's value at {:#x} is in no block obtained from the allocator", how, da));
                Block::none()
            }
        };
        if survivors.len() != 1 {
            viol::report(
                PF,
                "F.ctor-effect",
                format!("{}: expected exactly one surviving new block, got {} (allocs {}, frees {})", how, survivors.len(), eff.allocs.len(), eff.frees.len()),
            );
        }
        if let Some(v) = expect_val {
            if !P::ZST && (p.val != v || !p.ok) {
                viol::report(&["C06", "C01"], "L.ctor-value", format!("{}: constructed with value {} but reads back {:?}", how, v, p));
            }
        }
        // geometry (observed, not recomputed)
        let al = std::mem::align_of::<P>();
        let sz = std::mem::size_of::<P>();
        if block.seq != u32::MAX {
            if da % al != 0 {
                viol::report(&["C05", "C11"], "F.misaligned", format!("{}: value address {:#x} not aligned to {}", how, da, al));
            }
            if da < block.ptr + std::mem::size_of::<usize>() || da + sz > block.ptr + block.size {
                viol::report(
                    &["C05"],
                    "F.does-not-fit",
                    format!("{}: value [{:#x}, +{}] does not fit in block [{:#x}, +{}] after the count", how, da, sz, block.ptr, block.size),
                );
            }
            if block.align < al.max(std::mem::align_of::<usize>()) {
                viol::report(&["C05"], "F.block-align", format!("{}: block aligned to {} but payload needs {}", how, block.align, al));
            }
        }
        let kind = h.kind();
        let mut kinds = BTreeSet::new();
        kinds.insert(kind);
        self.allocs.push(AllocM {
            owners: 1,
            tok_id: p.id,
            val: p.val,
            block,
            data_addr: da,
            alive: true,
            moved_out: false,
            died_step: 0,
            created_kind: kind,
            kinds,
            last_release_kind: None,
        });
        if P::ZST {
            self.zst_expected_live += 1;
        }
        let ai = self.allocs.len() - 1;
        let ns = self.slots.len();
        self.log(|| format!("create {} -> slot {} = {:?}(alloc #{}, tok {}, val {})", how, ns, kind, ai, p.id as i64, p.val));
        self.slots.push(Slot { h, alloc: ai });
    }

    pub fn note_kind(&mut self, ai: usize, k: Kind) {
        self.allocs[ai].kinds.insert(k);
    }

    /// One owner of allocation `ai` (of kind `k`) has just been released.
    pub fn released(&mut self, ai: usize, k: Kind, moved_out: bool) {
        let a = &mut self.allocs[ai];
        a.owners -= 1;
        a.last_release_kind = Some(k);
        if a.owners == 0 {
            a.alive = false;
            a.moved_out = moved_out;
            a.died_step = self.step;
            if (k == Kind::U1 || k == Kind::U2) && a.kinds.len() > 1 {
                self.facts.union_last_owner = true;
            }
            if P::ZST && !moved_out {
                self.zst_expected_live -= 1;
            }
        }
    }

    /// The oracle that runs after every step.
    pub fn check_all(&mut self) {
        // every slot: value, address, counts
        for (si, s) in self.slots.iter().enumerate() {
            let m = &self.allocs[s.alloc];
            if !m.alive {
                viol::report(PANY, "M.model", format!("harness bug: slot {} refers to dead alloc #{}", si, s.alloc));
                continue;
            }
            let p = peek(&s.h);
            if !p.ok || p.id != m.tok_id || p.val != m.val {
                viol::report(
                    &["C01", "C08"],
                    "L.value",
                    format!(
                        "slot {} ({:?}, alloc #{}): reads {:?} but the model says tok {} val {} ({} owners)",
                        si,
                        s.h.kind(),
                        s.alloc,
                        p,
                        m.tok_id as i64,
                        m.val,
                        m.owners
                    ),
                );
            }
            let da = data_addr(&s.h);
            if da != m.data_addr {
                viol::report(PP, "P.addr-moved", format!("slot {} ({:?}): value address {:#x} differs from the allocation's {:#x}", si, s.h.kind(), da, m.data_addr));
            }
            for (name, c) in counts(&s.h) {
                if c != m.owners as usize {
                    viol::report(
                        PN,
                        "N.count",
                        format!("slot {} ({:?}, alloc #{}): {} reports {} but {} owning handles exist", si, s.h.kind(), s.alloc, name, c, m.owners),
                    );
                }
                if m.owners >= 3 && m.kinds.iter().any(|k| matches!(k, Kind::Raw | Kind::U1 | Kind::U2)) {
                    // facts for the C04 rule
                }
            }
        }
        // facts (C04): accessor kinds seen at count >= 3 with a raw/union owner
        for s in self.slots.iter() {
            let m = &self.allocs[s.alloc];
            if m.owners >= 3 && m.kinds.iter().any(|k| matches!(k, Kind::Raw | Kind::U1 | Kind::U2)) && s.h.kind() != Kind::Uniq {
                self.facts.accessor_kinds_at3.insert(s.h.kind());
            }
        }
        // every allocation: liveness of value and block
        let mut alive = 0usize;
        for (ai, m) in self.allocs.iter().enumerate() {
            let bl = alloc::block_by_seq(m.block.seq);
            let ti = if m.tok_id == NONE { None } else { tok::info(m.tok_id) };
            if m.alive {
                alive += 1;
                if let Some(t) = ti {
                    if t.state != TokState::Live {
                        viol::report(PL, "L.early-drop", format!("alloc #{} still has {} owners but its value (tok {}) was destroyed at step {}", ai, m.owners, m.tok_id, t.died));
                    }
                }
                if let Some(b) = bl {
                    if !b.live {
                        viol::report(PL, "L.early-free", format!("alloc #{} still has {} owners but its block #{} was freed at step {}", ai, m.owners, b.seq, b.died));
                    }
                }
            } else {
                if let Some(t) = ti {
                    if m.moved_out {
                        if t.state != TokState::Live {
                            viol::report(PX, "X.moved-out-dropped", format!("alloc #{}: value (tok {}) was moved out to the caller but its destructor ran at step {}", ai, m.tok_id, t.died));
                        }
                    } else if t.state == TokState::Live {
                        viol::report(PL, "L.not-dropped", format!("alloc #{}: last owner released at step {} but the value (tok {}) was not destroyed", ai, m.died_step, m.tok_id));
                    } else if t.died != m.died_step {
                        viol::report(PL, "L.drop-time", format!("alloc #{}: value destroyed at step {} but the last owner was released at step {}", ai, t.died, m.died_step));
                    }
                }
                if let Some(b) = bl {
                    if b.live {
                        viol::report(&["C01", "C09"], "L.not-freed", format!("alloc #{}: last owner released at step {} but block #{} is still allocated", ai, m.died_step, b.seq));
                    } else if b.died != m.died_step {
                        viol::report(PL, "L.free-time", format!("alloc #{}: block freed at step {} but the last owner was released at step {}", ai, b.died, m.died_step));
                    }
                }
            }
        }
        let live = alloc::live_blocks();
        if live.len() != alive {
            viol::report(PF, "F.block-count", format!("{} tracked blocks are live but the model has {} live allocations", live.len(), alive));
        }
        if P::ZST {
            let z = P::live_now().unwrap_or(0);
            let expect = self.zst_expected_live;
            if z != expect {
                viol::report(PL, "L.zst-live", format!("{} zero-sized values are alive but the model expects {}", z, expect));
            }
        }
    }
}

pub struct SizedEngine<P: SizedPayload> {
    pub prof: Profile,
    pub max_ops: usize,
    pub table: [OpK; 256],
    pub _p: PhantomData<fn() -> P>,
}

impl<P: SizedPayload> SizedEngine<P> {
    pub fn new(prop: &str, max_ops: usize) -> Self {
        let prof = profile(prop);
        let table = prof.table();
        SizedEngine { prof, max_ops, table, _p: PhantomData }
    }
}

#[allow(dead_code)]
fn _unused() {
    let _ = (PU, PW, PI, MaybeUninit::<u8>::uninit(), catch_unwind(AssertUnwindSafe(|| ())), track(|| ()), pick(0, 1));
    let _: Option<ByteCase> = None;
    let _: Option<CaseReport> = None;
    fn _e<E: Engine>() {}
}
