//! Schedule engine: generated multi-thread programs over handles of all kinds, run under
//! the harness-owned scheduler and memory model of `rt::sim`.
//!
//! Case layout: params[0] threads (2..4), params[1] allocations (1..2), params[2..6] kind of
//! each thread's initial handle, params[8..72] schedule bytes, params[72..96] staleness
//! bytes; records `[thread, opcode, a, b]` are each thread's program in order.

use std::collections::HashMap;
use std::convert::TryFrom;
use std::marker::PhantomData;
use std::panic::{catch_unwind, AssertUnwindSafe};
use std::sync::{Arc as StdArc, Mutex};

use rt::alloc::{self, track};
use rt::case::{pick, ByteCase};
use rt::run::{CaseReport, Engine};
use rt::tok::{self, Probe};
use rt::{sim, viol};
use triomphe::{Arc, ArcBorrow, ArcUnion, HeaderSlice, OffsetArc, UniqueArc};

use crate::hist_sized::{counts, data_addr, peek, with_ref, Kind, SizedPayload, H};

pub struct SendH<P: SizedPayload>(pub H<P>);
unsafe impl<P: SizedPayload> Send for SendH<P> {}
// shared roots are only ever cloned through `&H` (every handle kind is Sync for Send + Sync payloads)
unsafe impl<P: SizedPayload> Sync for SendH<P> {}

#[derive(Clone, Copy, Debug, PartialEq, Eq)]
pub enum SOp {
    Read,
    Clone,
    Drop,
    Convert,
    Count,
    Send,
    Recv,
    PollWrite,
    MakeMut,
    Unwrap,
    /// clone through a shared borrow of a handle that other threads clone from concurrently
    CloneShared,
    /// update the value through a shared reference (payloads with interior mutability only)
    Bump,
}

#[derive(Clone, Debug)]
pub struct SProfile {
    pub name: &'static str,
    pub ops: Vec<(SOp, u32)>,
    pub rule: &'static str,
}

pub fn sprofile(prop: &str) -> SProfile {
    use SOp::*;
    match prop {
        "C03" => SProfile { name: "poll-unique-then-write", ops: vec![(Read, 5), (Clone, 3), (Drop, 5), (Convert, 1), (Count, 1), (Send, 2), (Recv, 2), (PollWrite, 7), (MakeMut, 4)], rule: "C03" },
        "C08" => SProfile { name: "make_mut-vs-readers", ops: vec![(Read, 6), (Clone, 3), (Drop, 4), (Convert, 1), (Send, 1), (Recv, 1), (MakeMut, 8)], rule: "C08" },
        "C09" => SProfile { name: "racing-unwrap", ops: vec![(Read, 4), (Clone, 2), (CloneShared, 1), (Drop, 4), (Convert, 1), (Send, 1), (Recv, 1), (Unwrap, 9), (Bump, 4)], rule: "C09" },
        _ => SProfile { name: "clone-read-drop", ops: vec![(Read, 6), (Clone, 4), (CloneShared, 4), (Drop, 6), (Convert, 3), (Count, 2), (Send, 3), (Recv, 3)], rule: "C02" },
    }
}

impl SProfile {
    fn table(&self) -> [SOp; 256] {
        let total: u32 = self.ops.iter().map(|o| o.1).sum();
        let mut t = [SOp::Read; 256];
        let mut k = 0;
        let mut acc = self.ops[0].1;
        for i in 0..256u32 {
            while k + 1 < self.ops.len() && i * total >= acc * 256 {
                k += 1;
                acc += self.ops[k].1;
            }
            t[i as usize] = self.ops[k].0;
        }
        t
    }
}

pub struct SchedEngine<P: SizedPayload> {
    pub prof: SProfile,
    pub table: [SOp; 256],
    pub max_ops: usize,
    pub _p: PhantomData<fn() -> P>,
}

impl<P: SizedPayload> SchedEngine<P> {
    pub fn new(prop: &str, max_ops: usize) -> Self {
        let prof = sprofile(prop);
        let table = prof.table();
        SchedEngine { prof, table, max_ops, _p: PhantomData }
    }
}

#[derive(Default)]
struct ThreadFacts {
    reads: u32,
    poll_success_after_other_read: bool,
    makemut_shared: bool,
    unwrap_attempts: u32,
    unwrap_success: u32,
    sends: u32,
}

struct Shared<P: SizedPayload> {
    /// handles owned by thread 0 for the whole run; the threads clone from them through `&`
    roots: Vec<SendH<P>>,
    mail: Mutex<HashMap<u64, SendH<P>>>,
    /// value address -> the value every thread would read now (threads run one at a time)
    shadow: Mutex<HashMap<usize, u64>>,
    next_token: Mutex<u64>,
    facts: Mutex<Vec<ThreadFacts>>,
    log: Mutex<Vec<String>>,
}

fn make_kind<P: SizedPayload>(a: Arc<P>, k: u8) -> H<P> {
    match pick(k, 7) {
        0 => H::Arc(a),
        1 => H::Off(Arc::into_raw_offset(a)),
        2 => H::U1(ArcUnion::from_first(a)),
        3 => H::U2(ArcUnion::from_second(a)),
        4 => H::Raw(Arc::into_raw(a)),
        5 => {
            let raw: *const P = Arc::into_raw(a);
            H::Dyn(unsafe { Arc::from_raw(raw as *const dyn Probe) })
        }
        _ => H::Hs(Arc::<HeaderSlice<(), P>>::from(a)),
    }
}

/// bring any kind back to a plain Arc (count-neutral)
fn to_arc<P: SizedPayload>(h: H<P>) -> Result<Arc<P>, H<P>> {
    match h {
        H::Arc(a) => Ok(a),
        H::Off(o) => Ok(Arc::from_raw_offset(o)),
        H::Raw(p) => Ok(unsafe { Arc::from_raw(p) }),
        H::Dyn(d) => {
            let raw: *const dyn Probe = Arc::into_raw(d);
            Ok(unsafe { Arc::from_raw(raw as *const P) })
        }
        H::Hs(h) => Ok(Arc::<P>::from(h)),
        H::Uniq(u) => Ok(u.shareable()),
        H::U1(u) => {
            let a = u.as_first().map(|b| b.clone_arc());
            drop(u);
            a.ok_or(H::Gone)
        }
        H::U2(u) => {
            let a = u.as_second().map(|b| b.clone_arc());
            drop(u);
            a.ok_or(H::Gone)
        }
        other => Err(other),
    }
}

fn clone_via<P: SizedPayload>(h: &H<P>, b: u8) -> Option<H<P>> {
    Some(match h {
        H::Arc(a) => match pick(b, 4) {
            0 => H::Arc(a.clone()),
            1 => H::Arc(a.borrow_arc().clone_arc()),
            2 => H::Off(a.with_raw_offset_arc(|o| o.clone())),
            _ => H::Arc(a.borrow_arc().with_arc(|x| x.clone())),
        },
        H::Off(o) => match pick(b, 3) {
            0 => H::Off(o.clone()),
            1 => H::Arc(o.clone_arc()),
            _ => H::Arc(o.with_arc(|x| x.clone())),
        },
        H::U1(u) => match pick(b, 2) {
            0 => H::U1(u.clone()),
            _ => H::Arc(u.as_first()?.clone_arc()),
        },
        H::U2(u) => match pick(b, 2) {
            0 => H::U2(u.clone()),
            _ => H::Arc(u.as_second()?.clone_arc()),
        },
        H::Raw(p) => H::Arc(unsafe { ArcBorrow::from_ptr(*p) }.clone_arc()),
        H::Dyn(d) => H::Dyn(d.clone()),
        H::Hs(h) => H::Hs(h.clone()),
        _ => return None,
    })
}

fn drop_h<P: SizedPayload>(h: H<P>) {
    match h {
        H::Raw(p) => drop(unsafe { Arc::from_raw(p) }),
        other => drop(other),
    }
}

struct Local<P: SizedPayload> {
    tid: usize,
    pool: Vec<H<P>>,
    outs: Vec<P>,
    seen: HashMap<usize, u64>,
    facts: ThreadFacts,
    next_val: u64,
}

impl<P: SizedPayload> Local<P> {
    fn holds(&self, addr: usize) -> bool {
        self.pool.iter().any(|h| data_addr(h) == addr)
    }
    fn forget_if_gone(&mut self, addr: usize) {
        if !self.holds(addr) {
            self.seen.remove(&addr);
        }
    }
    fn read(&mut self, i: usize) {
        let h = &self.pool[i];
        let addr = data_addr(h);
        let p = peek(h);
        self.facts.reads += 1;
        if !P::ZST && !P::INTERIOR_MUT && p.ok {
            match self.seen.get(&addr) {
                Some(&v) if v != p.val => {
                    viol::report(
                        &["C08", "C03"],
                        "S.value-changed",
                        format!(
                            "thread {} has held a handle to the value at {:#x} all along and saw {} earlier, now reads {} (someone wrote through another handle)",
                            self.tid, addr, v, p.val
                        ),
                    );
                }
                _ => {
                    self.seen.insert(addr, p.val);
                }
            }
        }
    }
    fn drop_all(&mut self) {
        while let Some(h) = self.pool.pop() {
            let addr = data_addr(&h);
            drop_h(h);
            self.forget_if_gone(addr);
        }
        for v in self.outs.drain(..) {
            let _ = v.peekp();
            drop(v);
        }
    }
}

fn run_thread<P: SizedPayload>(mut l: Local<P>, ops: Vec<(SOp, u8, u8)>, sh: StdArc<Shared<P>>, nthreads: usize, trace: bool) {
    for (op, a, b) in ops {
        if op == SOp::CloneShared {
            if l.pool.len() < 4 && !sh.roots.is_empty() {
                let r = &sh.roots[pick(a, sh.roots.len())].0;
                if trace {
                    sim::log(format!("  t{} CloneShared from root {:?} (variant {})", l.tid, r.kind(), b));
                }
                if let Some(n) = clone_via(r, b) {
                    l.pool.push(n);
                }
            }
            continue;
        }
        if l.pool.is_empty() && !matches!(op, SOp::Recv) {
            continue;
        }
        let i = pick(a, l.pool.len());
        if trace {
            let k = if l.pool.is_empty() { None } else { Some(l.pool[i].kind()) };
            sim::log(format!("  t{} {:?} slot {} {:?} (variant {})", l.tid, op, i, k, b));
        }
        match op {
            SOp::CloneShared => {}
            SOp::Bump => {
                let addr = data_addr(&l.pool[i]);
                if let Some(Some(v)) = with_ref(&l.pool[i], |p| p.bump()) {
                    sh.shadow.lock().unwrap().insert(addr, v);
                }
            }
            SOp::Read => l.read(i),
            SOp::Clone => {
                if l.pool.len() < 4 {
                    if let Some(n) = clone_via(&l.pool[i], b) {
                        l.pool.push(n);
                    }
                }
            }
            SOp::Drop => {
                let h = l.pool.remove(i);
                let addr = data_addr(&h);
                drop_h(h);
                l.forget_if_gone(addr);
            }
            SOp::Convert => {
                let h = l.pool.remove(i);
                match to_arc(h) {
                    Ok(a) => l.pool.insert(i, make_kind(a, b)),
                    Err(h) => l.pool.insert(i, h),
                }
            }
            SOp::Count => {
                let _ = counts(&l.pool[i]);
            }
            SOp::Send => {
                let to = 1 + pick(b, nthreads);
                if to != l.tid {
                    let h = l.pool.remove(i);
                    let addr = data_addr(&h);
                    let token = {
                        let mut t = sh.next_token.lock().unwrap();
                        *t += 1;
                        *t
                    };
                    sh.mail.lock().unwrap().insert(token, SendH(h));
                    sim::send(to, token);
                    l.facts.sends += 1;
                    l.forget_if_gone(addr);
                }
            }
            SOp::Recv => {
                if l.pool.len() < 4 {
                    if let Some(token) = sim::try_recv() {
                        if let Some(h) = sh.mail.lock().unwrap().remove(&token) {
                            l.pool.push(h.0);
                        }
                    }
                }
            }
            SOp::PollWrite => {
                // poll for uniqueness, then write through the granted reference
                let v = (l.tid as u64) * 1000 + l.next_val;
                l.next_val += 1;
                let addr = data_addr(&l.pool[i]);
                let wrote = match &mut l.pool[i] {
                    H::Arc(a) => match pick(b, 4) {
                        0 => {
                            if a.is_unique() {
                                Arc::get_mut(a).map(|r| r.setp(v)).is_some()
                            } else {
                                false
                            }
                        }
                        1 => Arc::get_mut(a).map(|r| r.setp(v)).is_some(),
                        2 => Arc::get_unique(a).map(|u| (**u).setp(v)).is_some(),
                        _ => {
                            // the deprecated writers' gate (Arc<MaybeUninit<T>>::write panics unless unique): the same
                            // allocation viewed as MaybeUninit<P> (repr(transparent)). `write` overwrites without
                            // dropping, so the old value is carried over by a bitwise copy and destroyed by hand
                            // once the gate has granted access (nobody else can write while this handle exists).
                            let old = std::mem::ManuallyDrop::new(unsafe { std::ptr::read(&**a as *const P) });
                            let mu: &mut Arc<std::mem::MaybeUninit<P>> = unsafe { &mut *(a as *mut Arc<P> as *mut Arc<std::mem::MaybeUninit<P>>) };
                            let r = catch_unwind(AssertUnwindSafe(|| {
                                #[allow(deprecated)]
                                let slot = mu.write(P::make(v));
                                slot.setp(v);
                            }));
                            match r {
                                Ok(()) => {
                                    drop(std::mem::ManuallyDrop::into_inner(old));
                                    true
                                }
                                Err(e) => {
                                    drop(e);
                                    false
                                }
                            }
                        }
                    },
                    H::Hs(h) => Arc::get_mut(h).map(|r| r.slice.setp(v)).is_some(),
                    H::Uniq(u) => {
                        (**u).setp(v);
                        true
                    }
                    _ => false,
                };
                if wrote {
                    l.seen.insert(addr, v);
                    sh.shadow.lock().unwrap().insert(addr, v);
                    l.facts.poll_success_after_other_read = true;
                }
            }
            SOp::MakeMut => {
                let v = (l.tid as u64) * 1000 + l.next_val;
                l.next_val += 1;
                let before = data_addr(&l.pool[i]);
                let done = match &mut l.pool[i] {
                    H::Arc(a) => {
                        if pick(b, 2) == 0 {
                            Arc::make_mut(a).setp(v)
                        } else {
                            (**Arc::make_unique(a)).setp(v)
                        }
                        true
                    }
                    H::Off(o) => {
                        o.make_mut().setp(v);
                        true
                    }
                    H::Hs(h) => {
                        Arc::make_mut(h).slice.setp(v);
                        true
                    }
                    _ => false,
                };
                if done {
                    let after = data_addr(&l.pool[i]);
                    if after != before {
                        l.facts.makemut_shared = true;
                        l.forget_if_gone(before);
                    }
                    l.seen.insert(after, v);
                    sh.shadow.lock().unwrap().insert(after, v);
                }
            }
            SOp::Unwrap => {
                let h = l.pool.remove(i);
                let addr = data_addr(&h);
                match to_arc(h) {
                    Ok(a) => {
                        l.facts.unwrap_attempts += 1;
                        match pick(b, 4) {
                            0 => match Arc::try_unwrap(a) {
                                Ok(v) => {
                                    let got = v.peekp().val;
                                    let cur = sh.shadow.lock().unwrap().get(&addr).copied();
                                    if !P::ZST && cur.is_some() && cur != Some(got) {
                                        viol::report(&["C09"], "S.stale-value-moved-out", format!("thread {}: try_unwrap handed out the value {} but the shared value was {} when sole ownership was established (an update made through another handle before it was released is missing)", l.tid, got, cur.unwrap()));
                                    }
                                    l.facts.unwrap_success += 1;
                                    l.outs.push(v);
                                }
                                Err(a) => l.pool.push(H::Arc(a)),
                            },
                            1 => match Arc::try_unique(a) {
                                Ok(u) => {
                                    l.facts.unwrap_success += 1;
                                    l.pool.push(H::Uniq(u));
                                }
                                Err(a) => l.pool.push(H::Arc(a)),
                            },
                            2 => match UniqueArc::try_from(a) {
                                Ok(u) => {
                                    l.facts.unwrap_success += 1;
                                    let v = UniqueArc::into_inner(u);
                                    let got = v.peekp().val;
                                    let cur = sh.shadow.lock().unwrap().get(&addr).copied();
                                    if !P::ZST && cur.is_some() && cur != Some(got) {
                                        viol::report(&["C09"], "S.stale-value-moved-out", format!("thread {}: try_from + into_inner handed out the value {} but the shared value was {}", l.tid, got, cur.unwrap()));
                                    }
                                    l.outs.push(v);
                                }
                                Err(a) => l.pool.push(H::Arc(a)),
                            },
                            _ => {
                                let v = Arc::unwrap_or_clone(a);
                                let _ = v.peekp();
                                l.outs.push(v);
                            }
                        }
                    }
                    Err(h) => l.pool.push(h),
                }
                l.forget_if_gone(addr);
            }
        }
    }
    l.drop_all();
    let tid = l.tid;
    let mut f = sh.facts.lock().unwrap();
    f[tid] = std::mem::take(&mut l.facts);
    let _ = &sh.log;
}

impl<P: SizedPayload> Engine for SchedEngine<P> {
    fn name(&self) -> String {
        format!("sched<{}>/{}", P::tyname(), self.prof.name)
    }
    fn params_len(&self) -> usize {
        96
    }
    fn ops_range(&self) -> (usize, usize) {
        (2, self.max_ops)
    }
    fn run(&self, case: &ByteCase, trace: bool) -> CaseReport {
        let _ = alloc::case_end();
        tok::reset();
        let _ = viol::take();
        let nthreads = 2 + pick(case.p(0), 3);
        let nallocs = 1 + pick(case.p(1), 2);
        // "many owners" worlds: thread 0 makes `bulk_n` extra clones of the first value and a dedicated thread drops them
        // one by one while the programs run (a long stream of single RMWs on the count: contention for CAS loops,
        // and counts far above anything a few program threads reach). Rare, because the largest one is slow.
        let bulk_code = case.p(7) >> 2;
        let bulk_n: usize = if bulk_code < 56 {
            0
        } else if bulk_code < 61 {
            40
        } else if bulk_code < 63 || case.p(6) >= 16 {
            300
        } else {
            70_000
        };
        let nthreads = if bulk_n > 0 { nthreads.min(3) } else { nthreads };
        // with a bulk dropper, half of the cases use a near-strict alternation of the threads at every atomic access
        let alternate = bulk_n > 0 && case.p(6) & 1 == 1;
        let sched_bytes: Vec<u8> = if alternate {
            (0..4096 + 3 * bulk_n).map(|i| 160 + ((i * 37 + case.p(8) as usize) % 96) as u8).collect()
        } else {
            case.params[8..72.min(case.params.len())].to_vec()
        };
        sim::begin(sim::Config { sched: sched_bytes, stale: case.params[72.min(case.params.len())..].to_vec(), trace });
        let prev = alloc::set_track(true);
        // thread 0: create the shared values and hand every thread its initial handles
        let roots: Vec<Arc<P>> = (0..nallocs).map(|k| Arc::new(P::make(100 + k as u64))).collect();
        // the shared roots: one handle of a generated kind per allocation, alive until after the join
        // (only in half of the cases: while they exist thread 0 is necessarily the last owner, which would
        // hide every race between a thread's last access and another thread's final drop)
        let shared_roots: Vec<SendH<P>> = if case.p(7) & 1 == 1 {
            roots.iter().enumerate().map(|(k, r)| SendH(make_kind(r.clone(), case.p(6).wrapping_add(k as u8 * 37)))).collect()
        } else {
            vec![]
        };
        let sh = StdArc::new(Shared::<P> {
            roots: shared_roots,
            mail: Mutex::new(HashMap::new()),
            shadow: Mutex::new(roots.iter().map(|r| (&**r as *const P as usize, r.peekp().val)).collect()),
            next_token: Mutex::new(0),
            facts: Mutex::new((0..=nthreads).map(|_| ThreadFacts::default()).collect()),
            log: Mutex::new(vec![]),
        });
        let mut progs: Vec<Vec<(SOp, u8, u8)>> = vec![vec![]; nthreads + 1];
        for op in &case.ops {
            let t = 1 + pick(op[0], nthreads);
            if progs[t].len() < 8 {
                progs[t].push((self.table[op[1] as usize], op[2], op[3]));
            }
        }
        let mut bodies: Vec<Box<dyn FnOnce() + Send>> = vec![];
        for t in 1..=nthreads {
            let kb = case.p(1 + t);
            let root = &roots[(t - 1) % nallocs];
            let mut pool = vec![make_kind(root.clone(), kb)];
            if kb & 1 == 1 && nallocs > 1 {
                pool.push(H::Arc(roots[t % nallocs].clone()));
            }
            let l = SendH2(Local { tid: t, pool, outs: vec![], seen: HashMap::new(), facts: ThreadFacts::default(), next_val: 1 });
            let ops = std::mem::take(&mut progs[t]);
            let sh2 = sh.clone();
            bodies.push(Box::new(move || {
                let l = l;
                run_thread(l.0, ops, sh2, nthreads, trace)
            }));
        }
        if bulk_n > 0 {
            let bulk: Vec<Arc<P>> = (0..bulk_n).map(|_| roots[0].clone()).collect();
            bodies.push(Box::new(move || {
                for h in bulk {
                    drop(h);
                }
            }));
        }
        drop(roots);
        sim::run_threads(bodies);
        // after the join: whatever is still in flight is released by thread 0
        let tokens = sim::drain_mail();
        for t in tokens {
            if let Some(h) = sh.mail.lock().unwrap().remove(&t) {
                drop_h(h.0);
            }
        }
        let leftovers: Vec<SendH<P>> = sh.mail.lock().unwrap().drain().map(|(_, h)| h).collect();
        for h in leftovers {
            drop_h(h.0);
        }
        // thread 0 releases the shared roots last (it has joined everyone)
        let sh = match StdArc::try_unwrap(sh) {
            Ok(mut s) => {
                for r in s.roots.drain(..) {
                    drop_h(r.0);
                }
                StdArc::new(s)
            }
            Err(s) => s,
        };
        alloc::set_track(prev);
        let rep = sim::end();
        for id in tok::live_ids() {
            viol::report(&["C02", "C09", "C01"], "S.leak-value", format!("tok {} was never destroyed although every thread released all its handles", id));
        }
        for b in alloc::live_blocks() {
            if rep.refcounted.contains(&b.seq) {
                viol::report(&["C02", "C09", "C01"], "S.leak-block", format!("block #{} was never freed although every thread released all its handles", b.seq));
            }
        }
        let viols = viol::take();
        let _ = alloc::case_end();
        let facts = sh.facts.lock().unwrap();
        let st = &rep.stats;
        let total_unwrap: u32 = facts.iter().map(|f| f.unwrap_attempts).sum();
        let threads_unwrapping = facts.iter().filter(|f| f.unwrap_attempts > 0).count();
        let nontrivial = match self.prof.rule {
            "C03" => facts.iter().any(|f| f.poll_success_after_other_read) && st.threads_accessing >= 2 && st.preemptions >= 1,
            "C08" => facts.iter().any(|f| f.makemut_shared) && st.preemptions >= 1,
            "C09" => threads_unwrapping >= 2 && st.preemptions >= 1,
            _ => st.threads_accessing >= 2 && st.preemptions >= 1 && st.frees >= 1,
        };
        let mut labels: Vec<&'static str> = vec![];
        if st.preemptions >= 1 {
            labels.push("sched:>=1-preemption");
        }
        if st.preemptions >= 4 {
            labels.push("sched:>=4-preemptions");
        }
        if st.stale_loads >= 1 {
            labels.push("sched:>=1-stale-load");
        }
        if st.mailbox >= 1 {
            labels.push("sched:mailbox-transfer");
        }
        if nthreads >= 3 {
            labels.push("sched:>=3-threads");
        }
        if bulk_n > 0 {
            labels.push(if bulk_n >= 70_000 { "sched:70000-extra-owners" } else if bulk_n >= 300 { "sched:300-extra-owners" } else { "sched:40-extra-owners" });
        }
        if alternate {
            labels.push("sched:alternating-schedule");
        }
        if case.p(7) & 1 == 1 {
            labels.push("sched:shared-root-handles");
        }
        if total_unwrap >= 2 {
            labels.push("sched:>=2-unwrap-attempts");
        }
        if facts.iter().any(|f| f.makemut_shared) {
            labels.push("sched:make_mut-redirected");
        }
        if facts.iter().any(|f| f.poll_success_after_other_read) {
            labels.push("sched:poll-granted-then-wrote");
        }
        CaseReport { viols, nontrivial, labels, trace: rep.trace }
    }
}

struct SendH2<P: SizedPayload>(Local<P>);
unsafe impl<P: SizedPayload> Send for SendH2<P> {}

#[allow(dead_code)]
fn _unused() {
    let _ = track(|| ());
    let _ = (Kind::Arc, OffsetArc::<u8>::strong_count);
}
