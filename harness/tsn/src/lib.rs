//! Real-thread engine for the ThreadSanitizer flavour (`tvt`, built with -Zsanitizer=thread, -Zbuild-std,
//! triomphe at opt-level 0 so that every source-level access exists in the binary).
//!
//! The simulated-schedule engines (hist::sched*) see the reference count (through the shim) and the
//! payload accesses the *payload* performs; they cannot see a plain read or write the *library* performs
//! outside the window its atomics protect (e.g. a non-final dropper touching the allocation after its
//! own decrement). Here 2–4 real threads run generated programs over shared allocations and
//! ThreadSanitizer's happens-before detector is the oracle: a report ends the process with exit code 66
//! (TSAN_OPTIONS), which the parent treats like any worker crash: confirm in a fresh process, shrink by
//! delta debugging, write the replay file. A second, value-level oracle (payload invariant `b == !a`)
//! reports torn or poisoned reads through the violation sink.
//!
//! No harness-level lock is shared by the threads while they run (that would add happens-before edges
//! and hide races); handles travel between threads through std mpsc channels only.

use std::mem::{ManuallyDrop, MaybeUninit};
use std::panic::{catch_unwind, AssertUnwindSafe};
use std::sync::mpsc::{channel, Receiver, Sender};
use std::sync::{Arc as StdArc, Barrier};

use rt::case::{pick, ByteCase};
use rt::run::{CaseReport, Engine, Job, Tier};
use rt::viol;
use triomphe::{Arc, ArcBorrow, ArcUnion, HeaderSlice, HeaderWithLength, OffsetArc, ThinArc, UniqueArc};

const DEAD: u64 = 0xDEAD_DEAD_DEAD_DEAD;
const PR: &[&str] = &["C02", "C03", "C09", "C08"];

/// Payload with plain fields (every access is visible to ThreadSanitizer) and an invariant.
pub struct Pay {
    a: u64,
    b: u64,
}
impl Pay {
    fn new(v: u64) -> Pay {
        Pay { a: v, b: !v }
    }
    #[inline(never)]
    fn check(&self, what: &str) -> u64 {
        let (a, b) = (self.a, self.b);
        if b != !a {
            viol::report(PR, "T.torn", format!("{}: the payload reads a={:#x} b={:#x} (invariant b == !a; {:#x} is the destructor's poison)", what, a, b, DEAD));
        }
        a
    }
    #[inline(never)]
    fn set(&mut self, v: u64) {
        self.a = v;
        self.b = !v;
    }
}
impl Clone for Pay {
    fn clone(&self) -> Pay {
        Pay::new(self.check("Clone::clone"))
    }
}
impl Drop for Pay {
    fn drop(&mut self) {
        self.check("Drop::drop");
        self.set(DEAD);
    }
}
trait PayT: Send + Sync {
    fn pay(&self) -> &Pay;
}
impl PayT for Pay {
    fn pay(&self) -> &Pay {
        self
    }
}

type Alt = u64;
type FatT = Arc<HeaderSlice<HeaderWithLength<Pay>, [Pay]>>;

enum TH {
    Arc(Arc<Pay>),
    Off(OffsetArc<Pay>),
    U1(ArcUnion<Pay, Alt>),
    U2(ArcUnion<Alt, Pay>),
    Raw(RawOwn),
    Dyn(Arc<dyn PayT>),
    Thin(ThinArc<Pay, Pay>),
    Fat(FatT),
    Sl(Arc<[Pay]>),
    /// an arc-swap container shared by several threads (its last holder drops it: RefCnt::dec)
    #[cfg(feature = "arc-swap")]
    Swap(StdArc<arc_swap::ArcSwapAny<Arc<Pay>>>),
    #[cfg(feature = "arc-swap")]
    SwapThin(StdArc<arc_swap::ArcSwapAny<ThinArc<Pay, Pay>>>),
}
unsafe impl Send for TH {}

/// an owning raw pointer (Arc::into_raw), given back with Arc::from_raw when released
struct RawOwn(*const Pay);
impl Drop for RawOwn {
    fn drop(&mut self) {
        drop(unsafe { Arc::from_raw(self.0) });
    }
}

fn kind(h: &TH) -> &'static str {
    match h {
        TH::Arc(_) => "Arc",
        TH::Off(_) => "OffsetArc",
        TH::U1(_) => "ArcUnion(first)",
        TH::U2(_) => "ArcUnion(second)",
        TH::Raw(_) => "raw",
        TH::Dyn(_) => "Arc<dyn>",
        TH::Thin(_) => "ThinArc",
        TH::Fat(_) => "Arc<HeaderSlice<HeaderWithLength>>",
        TH::Sl(_) => "Arc<[T]>",
        #[cfg(feature = "arc-swap")]
        TH::Swap(_) => "ArcSwapAny<Arc>",
        #[cfg(feature = "arc-swap")]
        TH::SwapThin(_) => "ArcSwapAny<ThinArc>",
    }
}

fn read(h: &TH) {
    match h {
        TH::Arc(a) => {
            a.check("read through Arc");
        }
        TH::Off(o) => {
            o.check("read through OffsetArc");
        }
        TH::U1(u) => {
            if let Some(b) = u.as_first() {
                b.check("read through ArcUnion(first)");
            }
        }
        TH::U2(u) => {
            if let Some(b) = u.as_second() {
                b.check("read through ArcUnion(second)");
            }
        }
        TH::Raw(p) => {
            unsafe { ArcBorrow::from_ptr(p.0) }.check("read through ArcBorrow::from_ptr(raw)");
        }
        TH::Dyn(d) => {
            d.pay().check("read through Arc<dyn>");
        }
        TH::Thin(t) => {
            t.header.header.check("read of a ThinArc header");
            for e in t.slice.iter() {
                e.check("read of a ThinArc element");
            }
        }
        TH::Fat(f) => {
            f.header.header.check("read of a fat header");
            for e in f.slice.iter() {
                e.check("read of a fat element");
            }
        }
        TH::Sl(s) => {
            for e in s.iter() {
                e.check("read of an Arc<[T]> element");
            }
        }
        #[cfg(feature = "arc-swap")]
        TH::Swap(s) => {
            s.load().check("read through ArcSwapAny::load");
        }
        #[cfg(feature = "arc-swap")]
        TH::SwapThin(s) => {
            let g = s.load();
            g.header.header.check("read through ArcSwapAny<ThinArc>::load");
        }
    }
}

fn clone_h(h: &TH, v: u8) -> TH {
    match h {
        TH::Arc(a) => match v % 4 {
            0 => TH::Arc(a.clone()),
            1 => TH::Arc(a.borrow_arc().clone_arc()),
            2 => TH::Off(a.with_raw_offset_arc(|o| o.clone())),
            _ => TH::Arc(a.borrow_arc().with_arc(|x| x.clone())),
        },
        TH::Off(o) => match v % 3 {
            0 => TH::Off(o.clone()),
            1 => TH::Arc(o.clone_arc()),
            _ => TH::Arc(o.with_arc(|x| x.clone())),
        },
        TH::U1(u) => match v % 2 {
            0 => TH::U1(u.clone()),
            _ => TH::Arc(u.as_first().unwrap().clone_arc()),
        },
        TH::U2(u) => match v % 2 {
            0 => TH::U2(u.clone()),
            _ => TH::Arc(u.as_second().unwrap().clone_arc()),
        },
        TH::Raw(p) => TH::Arc(unsafe { ArcBorrow::from_ptr(p.0) }.clone_arc()),
        TH::Dyn(d) => TH::Dyn(d.clone()),
        TH::Thin(t) => match v % 3 {
            0 => TH::Thin(t.clone()),
            1 => TH::Fat(t.with_arc(|a| a.clone())),
            _ => TH::Thin(t.with_arc(|a| Arc::into_thin(a.clone()))),
        },
        TH::Fat(f) => TH::Fat(f.clone()),
        TH::Sl(s) => TH::Sl(s.clone()),
        // a full handle out of the container (RefCnt::inc), or another reference to the container itself
        #[cfg(feature = "arc-swap")]
        TH::Swap(s) => match v % 3 {
            0 => TH::Arc(s.load_full()),
            1 => TH::Arc(arc_swap::Guard::into_inner(s.load())),
            _ => TH::Swap(s.clone()),
        },
        #[cfg(feature = "arc-swap")]
        TH::SwapThin(s) => match v % 2 {
            0 => TH::Thin(s.load_full()),
            _ => TH::SwapThin(s.clone()),
        },
    }
}

fn convert(h: TH, v: u8) -> TH {
    match h {
        TH::Arc(a) => match v % 6 {
            0 => TH::Off(Arc::into_raw_offset(a)),
            1 => TH::U1(ArcUnion::from_first(a)),
            2 => TH::U2(ArcUnion::from_second(a)),
            3 => TH::Raw(RawOwn(Arc::into_raw(a))),
            4 => {
                let raw: *const Pay = Arc::into_raw(a);
                TH::Dyn(unsafe { Arc::from_raw(raw as *const dyn PayT) })
            }
            _ => TH::Arc(a),
        },
        TH::Off(o) => TH::Arc(Arc::from_raw_offset(o)),
        TH::Raw(p) => {
            let raw = p.0;
            std::mem::forget(p);
            TH::Arc(unsafe { Arc::from_raw(raw) })
        }
        TH::Dyn(d) => {
            let raw: *const dyn PayT = Arc::into_raw(d);
            TH::Arc(unsafe { Arc::from_raw(raw as *const Pay) })
        }
        TH::Thin(t) => TH::Fat(Arc::from_thin(t)),
        TH::Fat(f) => TH::Thin(Arc::into_thin(f)),
        other => other,
    }
}

/// Ask for exclusive access through one of the gates; write when granted.
fn poll_write(h: &mut TH, v: u8, val: u64) -> bool {
    match h {
        TH::Arc(a) => match v % 6 {
            0 => {
                if a.is_unique() {
                    Arc::get_mut(a).map(|p| p.set(val)).is_some()
                } else {
                    false
                }
            }
            1 => Arc::get_mut(a).map(|p| p.set(val)).is_some(),
            2 => Arc::get_unique(a).map(|u| (**u).set(val)).is_some(),
            3 => {
                // try_unique round trip
                let taken = std::mem::replace(a, Arc::new(Pay::new(0)));
                match Arc::try_unique(taken) {
                    Ok(mut u) => {
                        u.set(val);
                        *a = u.shareable();
                        true
                    }
                    Err(back) => {
                        *a = back;
                        false
                    }
                }
            }
            4 => {
                let taken = std::mem::replace(a, Arc::new(Pay::new(0)));
                match UniqueArc::try_from(taken) {
                    Ok(mut u) => {
                        u.set(val);
                        *a = u.shareable();
                        true
                    }
                    Err(back) => {
                        *a = back;
                        false
                    }
                }
            }
            _ => {
                // the deprecated writers' gate: the same allocation viewed as MaybeUninit<Pay>
                // (repr(transparent)); `write` overwrites without dropping, so the old value is carried
                // over by a bitwise copy and destroyed by hand once access has been granted
                let old = ManuallyDrop::new(unsafe { std::ptr::read(&**a as *const Pay) });
                let mu: &mut Arc<MaybeUninit<Pay>> = unsafe { &mut *(a as *mut Arc<Pay> as *mut Arc<MaybeUninit<Pay>>) };
                let r = catch_unwind(AssertUnwindSafe(|| {
                    #[allow(deprecated)]
                    mu.write(Pay::new(val));
                }));
                match r {
                    Ok(()) => {
                        drop(ManuallyDrop::into_inner(old));
                        true
                    }
                    Err(e) => {
                        drop(e);
                        false
                    }
                }
            }
        },
        TH::Dyn(_) => false,
        #[cfg(feature = "arc-swap")]
        TH::Swap(s) => {
            match v % 3 {
                0 => s.store(Arc::new(Pay::new(val))),
                1 => {
                    let old = s.swap(Arc::new(Pay::new(val)));
                    old.check("value swapped out of the container");
                }
                _ => {
                    let cur = s.load_full();
                    let prev = s.compare_and_swap(&cur, Arc::new(Pay::new(val)));
                    prev.check("previous value of compare_and_swap");
                }
            }
            false
        }
        #[cfg(feature = "arc-swap")]
        TH::SwapThin(s) => {
            let old = s.swap(ThinArc::from_header_and_iter(Pay::new(val), (0..2u32).map(|i| Pay::new(val + i as u64))));
            old.header.header.check("ThinArc swapped out of the container");
            false
        }
        TH::Thin(t) => t.with_arc_mut(|a| match Arc::get_mut(a) {
            Some(p) => {
                p.header_mut().set(val);
                for e in p.slice_mut().iter_mut() {
                    e.set(val);
                }
                true
            }
            None => false,
        }),
        TH::Fat(f) => match Arc::get_mut(f) {
            Some(p) => {
                p.header.header.set(val);
                for e in p.slice.iter_mut() {
                    e.set(val);
                }
                true
            }
            None => false,
        },
        TH::Sl(s) => match v % 2 {
            0 => match Arc::get_mut(s) {
                Some(p) => {
                    for e in p.iter_mut() {
                        e.set(val);
                    }
                    true
                }
                None => false,
            },
            _ => match Arc::get_unique(s) {
                Some(u) => {
                    for e in u.iter_mut() {
                        e.set(val);
                    }
                    true
                }
                None => false,
            },
        },
        _ => false,
    }
}

fn make_mut(h: &mut TH, v: u8, val: u64) {
    match h {
        TH::Arc(a) => {
            if v % 2 == 0 {
                Arc::make_mut(a).set(val)
            } else {
                (**Arc::make_unique(a)).set(val)
            }
        }
        TH::Off(o) => o.make_mut().set(val),
        _ => {}
    }
}

/// Returns the handle back unless it was consumed.
fn unwrap(h: TH, v: u8, val: u64) -> Option<TH> {
    match h {
        TH::Arc(a) => match v % 3 {
            0 => match Arc::try_unwrap(a) {
                Ok(mut p) => {
                    p.check("value moved out by try_unwrap");
                    p.set(val);
                    None
                }
                Err(a) => Some(TH::Arc(a)),
            },
            1 => match Arc::try_unique(a) {
                Ok(u) => {
                    let mut p = UniqueArc::into_inner(u);
                    p.check("value moved out by try_unique + into_inner");
                    p.set(val);
                    None
                }
                Err(a) => Some(TH::Arc(a)),
            },
            _ => {
                let mut p = Arc::unwrap_or_clone(a);
                p.check("value from unwrap_or_clone");
                p.set(val);
                None
            }
        },
        other => Some(other),
    }
}

#[derive(Clone, Copy, Debug, PartialEq, Eq)]
enum Op {
    Read,
    Clone,
    Drop,
    Convert,
    PollWrite,
    MakeMut,
    Unwrap,
    Send,
    Recv,
    Count,
    CloneFrom,
    Yield,
}

fn op_table(prop: &str) -> Vec<(Op, u32)> {
    use Op::*;
    match prop {
        "C03" => vec![(Read, 5), (Clone, 3), (Drop, 5), (Convert, 2), (PollWrite, 8), (MakeMut, 2), (Send, 2), (Recv, 2), (Count, 1), (CloneFrom, 1), (Yield, 3)],
        "C09" => vec![(Read, 5), (Clone, 3), (Drop, 5), (Convert, 2), (Unwrap, 8), (PollWrite, 2), (Send, 2), (Recv, 2), (CloneFrom, 1), (Yield, 3)],
        "C08" => vec![(Read, 6), (Clone, 3), (Drop, 4), (Convert, 2), (MakeMut, 8), (Send, 1), (Recv, 1), (Yield, 3)],
        _ => vec![(Read, 6), (Clone, 5), (Drop, 7), (Convert, 3), (Send, 2), (Recv, 2), (Count, 1), (CloneFrom, 2), (PollWrite, 1), (Yield, 3)],
    }
}

fn decode_op(table: &[(Op, u32)], b: u8) -> Op {
    let total: u32 = table.iter().map(|x| x.1).sum();
    let mut x = (b as u32 * total) >> 8;
    for (o, w) in table {
        if x < *w {
            return *o;
        }
        x -= w;
    }
    table[0].0
}

struct ThreadProg {
    pool: Vec<TH>,
    ops: Vec<[u8; 4]>,
}

fn run_thread(tid: usize, mut pool: Vec<TH>, ops: Vec<[u8; 4]>, table: StdArc<Vec<(Op, u32)>>, txs: Vec<Sender<TH>>, rx: Receiver<TH>, start: StdArc<Barrier>) {
    start.wait();
    let mut next = 1u64;
    for op in ops {
        let k = decode_op(&table, op[0]);
        if pool.is_empty() && !matches!(k, Op::Recv | Op::Yield) {
            continue;
        }
        let i = pick(op[1], pool.len());
        let val = (tid as u64 + 1) * 1_000_000 + next;
        next += 1;
        match k {
            Op::Read => read(&pool[i]),
            Op::Clone => {
                if pool.len() < 6 {
                    let n = clone_h(&pool[i], op[2]);
                    pool.push(n);
                }
            }
            Op::Drop => {
                drop(pool.swap_remove(i));
            }
            Op::Convert => {
                let h = pool.swap_remove(i);
                pool.push(convert(h, op[2]));
            }
            Op::PollWrite => {
                poll_write(&mut pool[i], op[2], val);
            }
            Op::MakeMut => make_mut(&mut pool[i], op[2], val),
            Op::Unwrap => {
                let h = pool.swap_remove(i);
                if let Some(back) = unwrap(h, op[2], val) {
                    pool.push(back);
                }
            }
            Op::Send => {
                let to = pick(op[2], txs.len());
                if to != tid {
                    let h = pool.swap_remove(i);
                    let _ = txs[to].send(h);
                }
            }
            Op::Recv => {
                if pool.len() < 6 {
                    if let Ok(h) = rx.try_recv() {
                        pool.push(h);
                    }
                }
            }
            Op::Count => match &pool[i] {
                TH::Arc(a) => {
                    let _ = (Arc::count(a), Arc::strong_count(a), a.is_unique());
                }
                TH::Off(o) => {
                    let _ = OffsetArc::strong_count(o);
                }
                TH::Thin(t) => {
                    let _ = ThinArc::strong_count(t);
                }
                _ => {}
            },
            Op::CloneFrom => {
                let j = pick(op[2], pool.len());
                if i != j {
                    let (x, y) = if i < j {
                        let (l, r) = pool.split_at_mut(j);
                        (&mut l[i], &r[0])
                    } else {
                        let (l, r) = pool.split_at_mut(i);
                        (&mut r[0], &l[j])
                    };
                    match (x, y) {
                        (TH::Arc(d), TH::Arc(s)) => d.clone_from(s),
                        (TH::Off(d), TH::Off(s)) => d.clone_from(s),
                        (TH::Thin(d), TH::Thin(s)) => d.clone_from(s),
                        (TH::Fat(d), TH::Fat(s)) => d.clone_from(s),
                        (TH::Sl(d), TH::Sl(s)) => d.clone_from(s),
                        (TH::Dyn(d), TH::Dyn(s)) => d.clone_from(s),
                        _ => {}
                    }
                }
            }
            Op::Yield => {
                for _ in 0..(op[2] % 4) {
                    std::thread::yield_now();
                }
                for _ in 0..(op[3] as u32 * 4) {
                    std::hint::spin_loop();
                }
            }
        }
    }
    // release what is left, in pool order; handles still in the inbox are released by the main thread
    drop(pool);
    drop(rx);
}

pub struct TsanEngine {
    pub prop: &'static str,
}

const PARAMS: usize = 16;

impl TsanEngine {
    fn once(&self, c: &ByteCase, trace: Option<&mut Vec<String>>) -> (bool, Vec<&'static str>) {
        let nthreads = 2 + pick(c.p(0), 3);
        let table = StdArc::new(op_table(self.prop));
        // allocations: two sized values, one thin, one slice
        let s0 = Arc::new(Pay::new(10));
        let s1 = Arc::new(Pay::new(20));
        let tlen = pick(c.p(1), 4);
        let thin: ThinArc<Pay, Pay> = ThinArc::from_header_and_iter(Pay::new(30), (0..tlen).map(|i| Pay::new(31 + i as u64)));
        let sl: Arc<[Pay]> = Arc::from((0..1 + pick(c.p(2), 3)).map(|i| Pay::new(40 + i as u64)).collect::<Vec<_>>());
        #[cfg(feature = "arc-swap")]
        let swap = StdArc::new(arc_swap::ArcSwapAny::new(s1.clone()));
        #[cfg(feature = "arc-swap")]
        let swap_thin = StdArc::new(arc_swap::ArcSwapAny::new(thin.clone()));
        let mut progs: Vec<ThreadProg> = (0..nthreads).map(|_| ThreadProg { pool: vec![], ops: vec![] }).collect();
        let mut sharing = [0u32; 4];
        for t in 0..nthreads {
            let b = c.p(3 + t);
            // bits: which allocations this thread starts with, and as which kind
            if b & 1 != 0 || t < 2 {
                let h = TH::Arc(s0.clone());
                progs[t].pool.push(if b & 0x10 != 0 { convert(h, (b >> 5) % 5) } else { h });
                sharing[0] += 1;
            }
            if b & 2 != 0 {
                let h = TH::Arc(s1.clone());
                progs[t].pool.push(if b & 0x20 != 0 { convert(h, (b >> 6) % 5) } else { h });
                sharing[1] += 1;
            }
            if b & 4 != 0 || (self.prop == "C02" && t < 2 && c.p(7) & 1 == 1) {
                let h = TH::Thin(thin.clone());
                progs[t].pool.push(if b & 0x40 != 0 { convert(h, 0) } else { h });
                sharing[2] += 1;
            }
            if b & 8 != 0 {
                progs[t].pool.push(TH::Sl(sl.clone()));
                sharing[3] += 1;
            }
            #[cfg(feature = "arc-swap")]
            {
                if c.p(9) & 1 == 1 && (t < 2 || b & 0x80 != 0) {
                    progs[t].pool.push(TH::Swap(swap.clone()));
                    sharing[1] += 1;
                }
                if c.p(9) & 2 == 2 && (t < 2 || b & 0x80 != 0) {
                    progs[t].pool.push(TH::SwapThin(swap_thin.clone()));
                    sharing[2] += 1;
                }
            }
        }
        #[cfg(feature = "arc-swap")]
        drop((swap, swap_thin));
        drop((s0, s1, thin, sl));
        for (k, op) in c.ops.iter().enumerate() {
            progs[k % nthreads].ops.push(*op);
        }
        let mut gate_threads = 0;
        let mut drop_threads = 0;
        for p in &progs {
            let ks: Vec<Op> = p.ops.iter().map(|o| decode_op(&table, o[0])).collect();
            if ks.iter().any(|k| matches!(k, Op::PollWrite | Op::MakeMut | Op::Unwrap)) {
                gate_threads += 1;
            }
            if ks.iter().any(|k| matches!(k, Op::Drop | Op::Send | Op::CloneFrom)) || !p.pool.is_empty() {
                drop_threads += 1;
            }
        }
        let shared = sharing.iter().any(|n| *n >= 2);
        let nontrivial = shared && drop_threads >= 2 && (self.prop == "C02" || gate_threads >= 1);
        let mut labels: Vec<&'static str> = vec![["2 threads", "3 threads", "4 threads"][nthreads - 2]];
        if sharing[2] >= 2 {
            labels.push("ThinArc shared by >=2 threads");
        }
        if gate_threads >= 2 {
            labels.push(">=2 threads poll a uniqueness gate");
        }
        if let Some(tr) = trace {
            for (t, p) in progs.iter().enumerate() {
                let l = format!(
                    "thread {} starts with [{}] and runs {:?}",
                    t,
                    p.pool.iter().map(kind).collect::<Vec<_>>().join(", "),
                    p.ops.iter().map(|o| (decode_op(&table, o[0]), o[1], o[2])).collect::<Vec<_>>()
                );
                rt::run::trace_stream(&l);
                tr.push(l);
            }
        }
        let start = StdArc::new(Barrier::new(nthreads));
        let mut txs = vec![];
        let mut rxs = vec![];
        for _ in 0..nthreads {
            let (tx, rx) = channel::<TH>();
            txs.push(tx);
            rxs.push(rx);
        }
        let mut joins = vec![];
        for (t, (p, rx)) in progs.into_iter().zip(rxs.into_iter()).enumerate() {
            let (table, txs, start) = (table.clone(), txs.clone(), start.clone());
            joins.push(std::thread::Builder::new().stack_size(256 * 1024).spawn(move || run_thread(t, p.pool, p.ops, table, txs, rx, start)).expect("spawn"));
        }
        drop(txs);
        for j in joins {
            if j.join().is_err() {
                viol::report(PR, "T.panic", "a program thread panicked".to_string());
            }
        }
        (nontrivial, labels)
    }
}

impl Engine for TsanEngine {
    fn name(&self) -> String {
        format!("tsan-threads/{}", self.prop)
    }
    fn params_len(&self) -> usize {
        PARAMS
    }
    fn ops_range(&self) -> (usize, usize) {
        (2, 28)
    }
    fn run(&self, c: &ByteCase, trace: bool) -> CaseReport {
        let _ = viol::take();
        let mut tr = vec![];
        // a replay (trace = true) repeats the case: the detector is happens-before based and mostly
        // insensitive to timing, but which gate polls succeed depends on the real schedule
        let reps = if trace { 40 } else { 1 + (c.p(8) & 1) as usize };
        let mut out = (false, vec![]);
        for r in 0..reps {
            out = self.once(c, if trace && r == 0 { Some(&mut tr) } else { None });
        }
        CaseReport { viols: viol::take(), nontrivial: out.0, labels: out.1, trace: tr }
    }
}

/// The jobs of the ThreadSanitizer flavour for a property (thorough tier only).
pub fn jobs(prop: &str, tier: Tier) -> Vec<Job> {
    let p: &'static str = match prop {
        "C02" => "C02",
        "C03" => "C03",
        "C08" => "C08",
        "C09" => "C09",
        _ => return vec![],
    };
    let cases = if tier == Tier::Quick { 16_000 } else { 400_000 };
    vec![Job { engine: Box::new(TsanEngine { prop: p }), cases, flavour: "tsan" }]
}
