//! Engines that are not history-shaped: child-process outcomes (C16), comparison (C14),
//! serde (C17), constructors (C06), faults (C07), uninitialised construction (C15).
pub mod c16;
pub mod cmp;
#[cfg(feature = "serde")]
pub mod serde_eng;
pub mod uninit;
pub mod ctor;
