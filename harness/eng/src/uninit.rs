//! C15: uninitialised construction never destroys or exposes what was not written.

use std::marker::PhantomData;
use std::mem::MaybeUninit;
use std::panic::{catch_unwind, AssertUnwindSafe};

use rt::alloc::{self, track, Block};
use rt::case::{pick, ByteCase};
use rt::run::{CaseReport, Engine};
use rt::tok::{self, Payload, Plain8, State, Tok16, Tok1, Tok4, Tok8, Tok8b, TokZ};
use rt::viol;
use triomphe::{Arc, HeaderSlice, OffsetArc, UniqueArc};

const P: &[&str] = &["C15"];

macro_rules! lib {
    ($e:expr) => {
        track(|| $e).0
    };
}

/// Drop with a panic armed inside the dk-th payload destructor that runs (0 = none): the destruction is
/// recorded first, the remaining values are dropped while unwinding, and the block must still be returned.
macro_rules! ldrop {
    ($cx:expr, $dk:expr, $e:expr) => {{
        let x = $e;
        tok::drop_panic_at($dk);
        let r = track(|| catch_unwind(AssertUnwindSafe(move || drop(x)))).0;
        tok::drop_panic_at(0);
        if r.is_err() && !$cx.labels.contains(&"a payload destructor panicked") {
            $cx.labels.push("a payload destructor panicked");
        }
        drop(r);
    }};
}

fn dk_of(c: &ByteCase) -> i64 {
    let b = c.p(9);
    if b & 3 == 3 {
        1 + ((b >> 2) % 5) as i64
    } else {
        0
    }
}

pub trait TokP: Payload + Send + Sync {}
impl<T: Payload + Send + Sync> TokP for T {}

pub struct UninitEngine<Hd: TokP, El: TokP> {
    _p: PhantomData<fn() -> (Hd, El)>,
}
impl<Hd: TokP, El: TokP> UninitEngine<Hd, El> {
    pub fn new() -> Self {
        UninitEngine { _p: PhantomData }
    }
}

struct Cx {
    what: String,
    trace: Vec<String>,
    nt: bool,
    labels: Vec<&'static str>,
}

fn block_of(addr: usize) -> Block {
    alloc::classify(addr).or_else(|| alloc::classify(addr.wrapping_sub(1))).unwrap_or_else(Block::none)
}

/// after a drop before assume_init: written toks must still be Live and untouched
fn check_written_leaked(cx: &Cx, ids: &[u32]) {
    for id in ids {
        match tok::info(*id) {
            Some(t) if t.state == State::Live && t.drops == 0 => {}
            Some(t) => viol::report(P, "I.element-destructor", format!("{}: the element tok {} written into an uninitialised handle was destroyed (drops {}) although assume_init was never called", cx.what, id, t.drops)),
            None => {}
        }
    }
}

fn check_all_dropped_once(cx: &Cx, ids: &[u32], when: &str) {
    for id in ids {
        match tok::info(*id) {
            Some(t) if t.state == State::Dropped && t.drops == 1 => {}
            Some(t) => viol::report(&["C15", "C01"], "I.element-not-dropped-once", format!("{}: tok {} has been destroyed {} times {}", cx.what, id, t.drops, when)),
            None => {}
        }
    }
}

/// a (possibly zero-sized) header must have been destroyed exactly once by now
fn check_header_once<Hd: TokP>(cx: &Cx, hdr_id: Option<u32>, when: &str) {
    if Hd::ZST {
        if let Some((made, dropped)) = Hd::z_stats() {
            if dropped != made || Hd::live_now() != Some(0) {
                viol::report(P, "I.zst-header", format!("{}: {} zero-sized headers were created but {} destructor runs happened {}", cx.what, made, dropped, when));
            }
        }
    } else if let Some(id) = hdr_id {
        check_all_dropped_once(cx, &[id], when);
    }
}
/// ... and must still be alive (not destroyed at all) while the handle lives
fn check_header_alive<Hd: TokP>(cx: &Cx, hdr_id: Option<u32>) {
    if Hd::ZST {
        if let Some((made, dropped)) = Hd::z_stats() {
            if dropped != 0 || made != 1 {
                viol::report(P, "I.zst-header", format!("{}: the zero-sized header was destroyed {} time(s) while the handle is alive ({} made)", cx.what, dropped, made));
            }
        }
    } else if let Some(id) = hdr_id {
        if tok::info(id).map(|t| t.state) != Some(State::Live) {
            viol::report(P, "I.header-early-drop", format!("{}: the header was destroyed while the handle is alive", cx.what));
        }
    }
}

fn check_freed(cx: &Cx, bl: &Block) {
    if let Some(b) = alloc::block_by_seq(bl.seq) {
        if b.live {
            viol::report(&["C15", "C01"], "I.not-freed", format!("{}: the block is still allocated after the last handle was dropped", cx.what));
        }
    }
    let live = alloc::live_blocks();
    if !live.is_empty() {
        viol::report(&["C15", "C01"], "I.leak", format!("{}: {} blocks still allocated at the end", cx.what, live.len()));
    }
}

impl<Hd: TokP, El: TokP> UninitEngine<Hd, El> {
    /// sized: Arc<MaybeUninit<El>> and UniqueArc<MaybeUninit<El>>
    fn sized(cx: &mut Cx, c: &ByteCase) {
        let dk = dk_of(c);
        let via_unique = c.p(1) & 1 == 1;
        let written = c.p(2) & 1 == 1;
        let nclones = pick(c.p(3), 5);
        let fate = pick(c.p(4), 4);
        cx.what = format!(
            "{}::new_uninit::<{}>, {}written, {} extra clones, fate {}",
            if via_unique { "UniqueArc" } else { "Arc" },
            El::tyname(),
            if written { "" } else { "not " },
            nclones,
            ["drop before assume_init", "assume_init then drop", "deprecated write while shared/unique", "assume_init then release via OffsetArc"][fate]
        );
        let v0 = 500;
        let mut ids: Vec<u32> = vec![];
        let mut a: Arc<MaybeUninit<El>> = if via_unique {
            let mut u = lib!(UniqueArc::<El>::new_uninit());
            if written {
                if c.p(5) & 2 == 2 {
                    // initialise through the raw accessor
                    let (p, eff) = track(|| u.as_mut_ptr());
                    if p as usize != &*u as *const MaybeUninit<El> as usize || !eff.allocs.is_empty() || !eff.frees.is_empty() {
                        viol::report(&["C15", "C11"], "I.as-mut-ptr", format!("{}: UniqueArc<MaybeUninit<T>>::as_mut_ptr returned {:#x}, the value lives at {:#x}", cx.what, p as usize, &*u as *const MaybeUninit<El> as usize));
                    }
                    let v = El::make(v0);
                    ids.push(v.peekp().id);
                    unsafe { (p as *mut El).write(v) };
                } else {
                    let r = lib!(u.write(El::make(v0)));
                    ids.push(r.peekp().id);
                }
            }
            lib!(u.shareable())
        } else {
            let mut a = lib!(Arc::<MaybeUninit<El>>::new_uninit());
            if written {
                #[allow(deprecated)]
                let r = lib!(a.write(El::make(v0)));
                ids.push(r.peekp().id);
            }
            a
        };
        let bl = block_of(a.heap_ptr() as usize);
        if a.heap_ptr() as usize != bl.ptr {
            viol::report(&["C15", "C05"], "I.block", format!("{}: heap_ptr is not a block start", cx.what));
        }
        let clones: Vec<Arc<MaybeUninit<El>>> = (0..nclones).map(|_| lib!(a.clone())).collect();
        if c.p(5) & 1 == 1 {
            // the pointer accessor is an accessor: same address as Deref, same allocation, same count, in any
            // sharing state (it is what a unique owner initialises through)
            let before = (&*a as *const MaybeUninit<El> as usize, Arc::count(&a), a.heap_ptr() as usize);
            let (p, eff) = track(|| a.as_mut_ptr());
            let after = (&*a as *const MaybeUninit<El> as usize, Arc::count(&a), a.heap_ptr() as usize);
            if p as usize != before.0 || after != before || !eff.allocs.is_empty() || !eff.frees.is_empty() {
                viol::report(
                    &["C15", "C11", "C04"],
                    "I.as-mut-ptr",
                    format!("{}: Arc<MaybeUninit<T>>::as_mut_ptr returned {:#x}; (value address, count, block) went from {:x?} to {:x?} with {} allocations / {} frees", cx.what, p as usize, before, after, eff.allocs.len(), eff.frees.len()),
                );
            }
            if nclones > 0 {
                cx.labels.push("as_mut_ptr-while-shared");
            }
        }
        match fate {
            0 => {
                ldrop!(cx, dk, clones);
                ldrop!(cx, dk, a);
                check_written_leaked(cx, &ids);
                check_freed(cx, &bl);
                cx.nt = written;
            }
            2 => {
                // deprecated Arc::write: panics iff shared, and then nothing changes
                let before_count = Arc::count(&a);
                let r = catch_unwind(AssertUnwindSafe(|| {
                    #[allow(deprecated)]
                    let r = lib!(a.write(El::make(v0 + 1)));
                    r.peekp().id
                }));
                let shared = nclones > 0;
                let r_wrote = r.is_ok();
                match r {
                    Ok(id) => {
                        if shared {
                            viol::report(&["C15", "C03"], "I.shared-write", format!("{}: the deprecated Arc::write mutated an Arc with {} owners instead of panicking", cx.what, before_count));
                        }
                        // the previous content (if any) is overwritten without being dropped: leaked by contract
                        check_written_leaked(cx, &ids);
                        ids = vec![id];
                    }
                    Err(e) => {
                        drop(e);
                        if !shared {
                            viol::report(P, "I.unique-write-refused", format!("{}: the deprecated Arc::write panicked on a sole owner", cx.what));
                        }
                        cx.nt = true;
                        cx.labels.push("deprecated-write-at-owners>=2");
                    }
                }
                if Arc::count(&a) != before_count {
                    viol::report(&["C15", "C04"], "I.count", format!("{}: count changed from {} to {} around the deprecated write", cx.what, before_count, Arc::count(&a)));
                }
                // every other handle's view is intact
                if let Some(id) = ids.first() {
                    let expect_val = if r_wrote { v0 + 1 } else { v0 };
                    for cl in &clones {
                        let p = unsafe { cl.assume_init_ref() }.peekp();
                        if !p.ok || p.id != *id || p.val != expect_val {
                            viol::report(P, "I.view-changed", format!("{}: another handle now reads {:?} (expected tok {} val {})", cx.what, p, *id as i64, expect_val));
                        }
                    }
                }
                ldrop!(cx, dk, clones);
                ldrop!(cx, dk, a);
                check_written_leaked(cx, &ids);
                check_freed(cx, &bl);
            }
            _ => {
                // assume_init needs every field written
                if !written {
                    let id = {
                        let u = Arc::get_mut(&mut a);
                        match u {
                            Some(m) => Some(m.write(El::make(v0 + 2)).peekp().id),
                            None => None,
                        }
                    };
                    match id {
                        Some(id) => ids.push(id),
                        None => {
                            // shared and unwritten: cannot initialise safely; drop instead
                            ldrop!(cx, dk, clones);
                            ldrop!(cx, dk, a);
                            check_freed(cx, &bl);
                            return;
                        }
                    }
                }
                let count = Arc::count(&a);
                let addr = a.heap_ptr() as usize;
                let init: Arc<El> = lib!(unsafe { a.assume_init() });
                if init.heap_ptr() as usize != addr || Arc::count(&init) != count {
                    viol::report(&["C15", "C04"], "I.assume-init", format!("{}: assume_init changed the allocation ({:#x} -> {:#x}) or the count ({} -> {})", cx.what, addr, init.heap_ptr() as usize, count, Arc::count(&init)));
                }
                let p = init.peekp();
                if !p.ok || Some(&p.id) != ids.first() {
                    viol::report(P, "I.assume-init-value", format!("{}: after assume_init the value reads {:?}, expected tok {:?}", cx.what, p, ids.first()));
                }
                let inits: Vec<Arc<El>> = clones.into_iter().map(|cl| lib!(unsafe { cl.assume_init() })).collect();
                if fate == 3 {
                    let o: OffsetArc<El> = lib!(Arc::into_raw_offset(init));
                    ldrop!(cx, dk, inits);
                    for id in &ids {
                        if *id != tok::NONE && tok::info(*id).map(|t| t.state) != Some(State::Live) {
                            viol::report(&["C15", "C01"], "I.early-drop", format!("{}: element destroyed while an OffsetArc still owns it", cx.what));
                        }
                    }
                    ldrop!(cx, dk, o);
                    cx.nt = true;
                    cx.labels.push("assume_init-then-release-via-other-kind");
                } else {
                    ldrop!(cx, dk, init);
                    ldrop!(cx, dk, inits);
                }
                check_all_dropped_once(cx, &ids, "after the last initialised handle was released");
                check_freed(cx, &bl);
            }
        }
    }

    /// slices: Arc<[MaybeUninit<El>]>, UniqueArc<[MaybeUninit<El>]>, UniqueArc<HeaderSlice<Hd,[MaybeUninit<El>]>>
    fn slice(cx: &mut Cx, c: &ByteCase, with_header: bool) {
        let dk = dk_of(c);
        let via_unique = c.p(1) & 1 == 1 || with_header;
        let len = [0usize, 1, 2, 3, 4, 5, 6, 7, 8, 9, 10, 12, 15, 16, 17, 20, 24, 25, 31, 32, 33, 48, 63, 64, 65, 100][pick(c.p(2), 26)];
        let mask = u32::from_le_bytes([c.p(5), c.p(6), c.p(7), c.p(8)]);
        let nclones = pick(c.p(3), 5);
        let fate = pick(c.p(4), 4);
        if El::ZST {
            return;
        }
        let nwritten = (0..len).filter(|i| mask >> (i % 32) & 1 == 1).count();
        cx.what = format!(
            "{} len {} mask {:#x} ({} written), {} extra clones, fate {}",
            if with_header { format!("UniqueArc::from_header_and_uninit_slice::<{},{}>", Hd::tyname(), El::tyname()) } else if via_unique { format!("UniqueArc::new_uninit_slice::<{}>", El::tyname()) } else { format!("Arc::new_uninit_slice::<{}>", El::tyname()) },
            len,
            mask,
            nwritten,
            nclones,
            ["drop before assume_init", "assume_init then drop", "deprecated as_mut_slice while shared/unique", "assume_init then release via clone last"][fate]
        );
        let mut ids: Vec<Option<u32>> = vec![None; len];
        let mut hdr_id: Option<u32> = None;
        let write_slots = |s: &mut [MaybeUninit<El>], ids: &mut Vec<Option<u32>>, all: bool| {
            for (i, d) in s.iter_mut().enumerate() {
                if ids[i].is_none() && (all || mask >> (i % 32) & 1 == 1) {
                    ids[i] = Some(d.write(El::make(1000 + i as u64)).peekp().id);
                }
            }
        };
        if with_header {
            let mut u = lib!(UniqueArc::<HeaderSlice<Hd, [MaybeUninit<El>]>>::from_header_and_uninit_slice(Hd::make(77), len));
            hdr_id = if Hd::ZST { None } else { Some(u.header.peekp().id) };
            check_header_alive::<Hd>(cx, hdr_id);
            if u.slice.len() != len {
                viol::report(&["C15", "C06"], "I.len", format!("{}: slice has {} slots", cx.what, u.slice.len()));
            }
            write_slots(&mut u.slice, &mut ids, false);
            let bl = block_of(&u.header as *const Hd as usize);
            let written: Vec<u32> = ids.iter().flatten().copied().collect();
            if fate == 0 || fate == 2 {
                ldrop!(cx, dk, u);
                check_written_leaked(cx, &written);
                check_header_once::<Hd>(cx, hdr_id, "after the uninitialised handle was dropped (the header is initialised)");
                check_freed(cx, &bl);
                cx.nt = nwritten > 0 && nwritten < len;
                if cx.nt {
                    cx.labels.push("proper-subset-written-then-dropped");
                }
            } else {
                write_slots(&mut u.slice, &mut ids, true);
                let addr = &u.header as *const Hd as usize;
                let init: UniqueArc<HeaderSlice<Hd, [El]>> = lib!(unsafe { u.assume_init_slice_with_header() });
                if &init.header as *const Hd as usize != addr || init.slice.len() != len {
                    viol::report(P, "I.assume-init", format!("{}: assume_init_slice_with_header moved the allocation or changed the length", cx.what));
                }
                for (i, e) in init.slice.iter().enumerate() {
                    let p = e.peekp();
                    if !p.ok || Some(p.id) != ids[i] {
                        viol::report(P, "I.assume-init-value", format!("{}: element {} reads {:?}", cx.what, i, p));
                    }
                }
                let a = lib!(init.shareable());
                let cl = lib!(a.clone());
                ldrop!(cx, dk, a);
                let all: Vec<u32> = ids.iter().flatten().copied().chain(hdr_id).collect();
                for id in &all {
                    if *id != tok::NONE && tok::info(*id).map(|t| t.state) != Some(State::Live) {
                        viol::report(&["C15", "C01"], "I.early-drop", format!("{}: tok {} destroyed while a clone still owns the allocation", cx.what, id));
                    }
                }
                check_header_alive::<Hd>(cx, hdr_id);
                ldrop!(cx, dk, cl);
                check_all_dropped_once(cx, &all, "after the last initialised handle was released");
                check_header_once::<Hd>(cx, hdr_id, "after the last initialised handle was released");
                check_freed(cx, &bl);
                cx.nt = true;
                cx.labels.push("assume_init-then-release-via-other-kind");
            }
            return;
        }
        let mut a: Arc<[MaybeUninit<El>]> = if via_unique {
            let mut u = lib!(UniqueArc::<[MaybeUninit<El>]>::new_uninit_slice(len));
            if u.len() != len {
                viol::report(&["C15", "C06"], "I.len", format!("{}: slice has {} slots", cx.what, u.len()));
            }
            write_slots(&mut u, &mut ids, false);
            if fate == 1 && nclones == 0 {
                // the UniqueArc route to an initialised slice
                write_slots(&mut u, &mut ids, true);
                let addr = u.as_ptr() as usize;
                let init = lib!(unsafe { UniqueArc::assume_init_slice(u) });
                if init.as_ptr() as usize != addr || init.len() != len {
                    viol::report(P, "I.assume-init", format!("{}: assume_init_slice moved the allocation", cx.what));
                }
                let bl = block_of(addr.max(8) - 8);
                ldrop!(cx, dk, init);
                let all: Vec<u32> = ids.iter().flatten().copied().collect();
                check_all_dropped_once(cx, &all, "after the initialised UniqueArc was dropped");
                check_freed(cx, &bl);
                return;
            }
            lib!(u.shareable())
        } else {
            let mut a = lib!(Arc::<[MaybeUninit<El>]>::new_uninit_slice(len));
            if a.len() != len {
                viol::report(&["C15", "C06"], "I.len", format!("{}: slice has {} slots", cx.what, a.len()));
            }
            #[allow(deprecated)]
            write_slots(lib!(a.as_mut_slice()), &mut ids, false);
            a
        };
        let bl = block_of(a.heap_ptr() as usize);
        let clones: Vec<Arc<[MaybeUninit<El>]>> = (0..nclones).map(|_| lib!(a.clone())).collect();
        let written: Vec<u32> = ids.iter().flatten().copied().collect();
        match fate {
            0 => {
                ldrop!(cx, dk, a);
                ldrop!(cx, dk, clones);
                check_written_leaked(cx, &written);
                check_freed(cx, &bl);
                cx.nt = nwritten > 0 && nwritten < len;
                if cx.nt {
                    cx.labels.push("proper-subset-written-then-dropped");
                }
            }
            2 => {
                let shared = nclones > 0;
                let r = catch_unwind(AssertUnwindSafe(|| {
                    #[allow(deprecated)]
                    let s = lib!(a.as_mut_slice());
                    s.len()
                }));
                match r {
                    Ok(_) => {
                        if shared {
                            viol::report(&["C15", "C03"], "I.shared-write", format!("{}: the deprecated as_mut_slice handed out &mut on an Arc with {} owners instead of panicking", cx.what, 1 + nclones));
                        }
                    }
                    Err(e) => {
                        drop(e);
                        if !shared {
                            viol::report(P, "I.unique-write-refused", format!("{}: the deprecated as_mut_slice panicked on a sole owner", cx.what));
                        }
                        cx.nt = true;
                        cx.labels.push("deprecated-write-at-owners>=2");
                    }
                }
                if Arc::count(&a) != 1 + nclones {
                    viol::report(&["C15", "C04"], "I.count", format!("{}: count is {} after the deprecated as_mut_slice", cx.what, Arc::count(&a)));
                }
                for cl in &clones {
                    for (i, s) in cl.iter().enumerate() {
                        if let Some(id) = ids[i] {
                            let p = unsafe { s.assume_init_ref() }.peekp();
                            if !p.ok || p.id != id || p.val != 1000 + i as u64 {
                                viol::report(P, "I.view-changed", format!("{}: another handle's slot {} now reads {:?}", cx.what, i, p));
                            }
                        }
                    }
                }
                ldrop!(cx, dk, clones);
                ldrop!(cx, dk, a);
                check_written_leaked(cx, &written);
                check_freed(cx, &bl);
            }
            _ => {
                // complete the initialisation (needs unique access), then assume_init on every handle
                let mut clones = clones;
                let complete = ids.iter().all(|i| i.is_some());
                if !complete {
                    if nclones > 0 {
                        ldrop!(cx, dk, std::mem::take(&mut clones));
                    }
                    match Arc::get_mut(&mut a) {
                        Some(s) => write_slots(s, &mut ids, true),
                        None => {
                            viol::report(&["C15", "C03"], "U.verdict", format!("{}: get_mut declined on a sole owner", cx.what));
                            return;
                        }
                    }
                }
                let count = Arc::count(&a);
                let addr = a.heap_ptr() as usize;
                let init: Arc<[El]> = lib!(unsafe { a.assume_init() });
                if init.heap_ptr() as usize != addr || Arc::count(&init) != count || init.len() != len {
                    viol::report(&["C15", "C04"], "I.assume-init", format!("{}: assume_init changed the allocation, the count ({} -> {}) or the length", cx.what, count, Arc::count(&init)));
                }
                for (i, e) in init.iter().enumerate() {
                    let p = e.peekp();
                    if !p.ok || Some(p.id) != ids[i] {
                        viol::report(P, "I.assume-init-value", format!("{}: element {} reads {:?}", cx.what, i, p));
                    }
                }
                let inits: Vec<Arc<[El]>> = clones.into_iter().map(|cl| lib!(unsafe { cl.assume_init() })).collect();
                let all: Vec<u32> = ids.iter().flatten().copied().collect();
                if fate == 3 {
                    let last = lib!(init.clone());
                    ldrop!(cx, dk, init);
                    ldrop!(cx, dk, inits);
                    for id in &all {
                        if *id != tok::NONE && tok::info(*id).map(|t| t.state) != Some(State::Live) {
                            viol::report(&["C15", "C01"], "I.early-drop", format!("{}: tok {} destroyed while a clone still owns the allocation", cx.what, id));
                        }
                    }
                    let hs: Arc<HeaderSlice<(), [El]>> = lib!(last.into());
                    ldrop!(cx, dk, hs);
                    cx.nt = true;
                    cx.labels.push("assume_init-then-release-via-other-kind");
                } else {
                    ldrop!(cx, dk, inits);
                    ldrop!(cx, dk, init);
                }
                check_all_dropped_once(cx, &all, "after the last initialised handle was released");
                check_freed(cx, &bl);
            }
        }
    }
}

impl<Hd: TokP, El: TokP> Engine for UninitEngine<Hd, El> {
    fn name(&self) -> String {
        format!("uninit<{},{}>", Hd::tyname(), El::tyname())
    }
    fn params_len(&self) -> usize {
        10
    }
    fn ops_range(&self) -> (usize, usize) {
        (0, 0)
    }
    fn run(&self, c: &ByteCase, trace: bool) -> CaseReport {
        let _ = alloc::case_end();
        tok::reset();
        let _ = viol::take();
        let mut cx = Cx { what: String::new(), trace: vec![], nt: false, labels: vec![] };
        let r = catch_unwind(AssertUnwindSafe(|| match pick(c.p(0), 3) {
            0 => Self::sized(&mut cx, c),
            1 => Self::slice(&mut cx, c, false),
            _ => Self::slice(&mut cx, c, true),
        }));
        if r.is_err() {
            viol::report(P, "M.panic", format!("{}: unexpected panic", cx.what));
        }
        let viols = viol::take();
        let _ = alloc::case_end();
        if trace {
            cx.trace.push(cx.what.clone());
        }
        CaseReport { viols, nontrivial: cx.nt, labels: cx.labels, trace: cx.trace }
    }
}

pub fn engines() -> Vec<Box<dyn Engine>> {
    vec![
        Box::new(UninitEngine::<Tok8b, Tok8>::new()),
        Box::new(UninitEngine::<Tok1, Tok16>::new()),
        Box::new(UninitEngine::<Tok16, Tok1>::new()),
        Box::new(UninitEngine::<Tok4, Tok4>::new()),
        // a zero-sized header with a destructor; elements without drop glue
        Box::new(UninitEngine::<TokZ<3>, Tok8>::new()),
        Box::new(UninitEngine::<Tok8b, Plain8>::new()),
    ]
}
