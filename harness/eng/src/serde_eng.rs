//! C17: serialisation is transparent, deserialisation yields a fresh sole owner.
//!
//! A recursive `Val` with hand-written impls drives every Serializer entry point; a recording
//! serializer logs every call and can fail at its k-th call; a recording / failing
//! deserializer walks a `Val`. Handle and plain value are run against identical
//! serializers / deserializers and must behave identically call for call.

use std::cell::RefCell;
use std::fmt;
use std::rc::Rc;

use rt::alloc::{self, track, untracked};
use rt::case::ByteCase;
use rt::run::{CaseReport, Engine};
use rt::viol;
use serde::de::{self, DeserializeSeed, Deserializer, EnumAccess, MapAccess, SeqAccess, VariantAccess, Visitor};
use serde::ser::{self, Serialize, SerializeMap, SerializeSeq, SerializeStruct, SerializeStructVariant, SerializeTuple, SerializeTupleStruct, SerializeTupleVariant, Serializer};
use serde::Deserialize;
use triomphe::{Arc, UniqueArc};

const P: &[&str] = &["C17"];

#[derive(Clone, Debug, PartialEq)]
pub enum Val {
    Bool(bool),
    I8(i8),
    I16(i16),
    I32(i32),
    I64(i64),
    I128(i128),
    U8(u8),
    U16(u16),
    U32(u32),
    U64(u64),
    U128(u128),
    F32(u32),
    F64(u64),
    Char(char),
    Str(String),
    Bytes(Vec<u8>),
    None,
    Some(Box<Val>),
    Unit,
    UnitStruct,
    Newtype(Box<Val>),
    Seq(Vec<Val>),
    Tuple(Vec<Val>),
    TupleStruct(Vec<Val>),
    Map(Vec<(Val, Val)>),
    Struct(Vec<Val>),
    UnitVariant,
    NewtypeVariant(Box<Val>),
    TupleVariant(Vec<Val>),
    StructVariant(Vec<Val>),
}

const FIELDS: [&str; 6] = ["a", "b", "c", "d", "e", "f"];

impl Val {
    pub fn depth(&self) -> usize {
        match self {
            Val::Some(b) | Val::Newtype(b) | Val::NewtypeVariant(b) => 1 + b.depth(),
            Val::Seq(v) | Val::Tuple(v) | Val::TupleStruct(v) | Val::Struct(v) | Val::TupleVariant(v) | Val::StructVariant(v) => 1 + v.iter().map(|x| x.depth()).max().unwrap_or(0),
            Val::Map(m) => 1 + m.iter().map(|(k, v)| k.depth().max(v.depth())).max().unwrap_or(0),
            _ => 0,
        }
    }
}

impl Serialize for Val {
    fn serialize<S: Serializer>(&self, s: S) -> Result<S::Ok, S::Error> {
        match self {
            Val::Bool(x) => s.serialize_bool(*x),
            Val::I8(x) => s.serialize_i8(*x),
            Val::I16(x) => s.serialize_i16(*x),
            Val::I32(x) => s.serialize_i32(*x),
            Val::I64(x) => s.serialize_i64(*x),
            Val::I128(x) => s.serialize_i128(*x),
            Val::U8(x) => s.serialize_u8(*x),
            Val::U16(x) => s.serialize_u16(*x),
            Val::U32(x) => s.serialize_u32(*x),
            Val::U64(x) => s.serialize_u64(*x),
            Val::U128(x) => s.serialize_u128(*x),
            Val::F32(x) => s.serialize_f32(f32::from_bits(*x)),
            Val::F64(x) => s.serialize_f64(f64::from_bits(*x)),
            Val::Char(x) => s.serialize_char(*x),
            Val::Str(x) => s.serialize_str(x),
            Val::Bytes(x) => s.serialize_bytes(x),
            Val::None => s.serialize_none(),
            Val::Some(x) => s.serialize_some(&**x),
            Val::Unit => s.serialize_unit(),
            Val::UnitStruct => s.serialize_unit_struct("US"),
            Val::Newtype(x) => s.serialize_newtype_struct("NS", &**x),
            Val::Seq(v) => {
                let mut q = s.serialize_seq(Some(v.len()))?;
                for x in v {
                    q.serialize_element(x)?;
                }
                q.end()
            }
            Val::Tuple(v) => {
                let mut q = s.serialize_tuple(v.len())?;
                for x in v {
                    q.serialize_element(x)?;
                }
                q.end()
            }
            Val::TupleStruct(v) => {
                let mut q = s.serialize_tuple_struct("TS", v.len())?;
                for x in v {
                    q.serialize_field(x)?;
                }
                q.end()
            }
            Val::Map(m) => {
                let mut q = s.serialize_map(Some(m.len()))?;
                for (k, v) in m {
                    q.serialize_key(k)?;
                    q.serialize_value(v)?;
                }
                q.end()
            }
            Val::Struct(v) => {
                let mut q = s.serialize_struct("ST", v.len())?;
                for (i, x) in v.iter().enumerate() {
                    q.serialize_field(FIELDS[i % 6], x)?;
                }
                q.end()
            }
            Val::UnitVariant => s.serialize_unit_variant("EN", 0, "UV"),
            Val::NewtypeVariant(x) => s.serialize_newtype_variant("EN", 1, "NV", &**x),
            Val::TupleVariant(v) => {
                let mut q = s.serialize_tuple_variant("EN", 2, "TV", v.len())?;
                for x in v {
                    q.serialize_field(x)?;
                }
                q.end()
            }
            Val::StructVariant(v) => {
                let mut q = s.serialize_struct_variant("EN", 3, "SV", v.len())?;
                for (i, x) in v.iter().enumerate() {
                    q.serialize_field(FIELDS[i % 6], x)?;
                }
                q.end()
            }
        }
    }
}

// ---------------------------------------------------------------------------------
// recording serializer
// ---------------------------------------------------------------------------------
/// structured error: `code` is set by the recorder's injected failures and cannot be re-created
/// through `Error::custom` (an impl that re-wraps the error loses it)
#[derive(Debug, Clone, PartialEq)]
pub struct RecErr(pub String, pub u32);
impl fmt::Display for RecErr {
    fn fmt(&self, f: &mut fmt::Formatter<'_>) -> fmt::Result {
        write!(f, "{}", self.0)
    }
}
impl std::error::Error for RecErr {}
impl ser::Error for RecErr {
    fn custom<T: fmt::Display>(m: T) -> Self {
        RecErr(format!("custom:{}", m), 0)
    }
}
impl de::Error for RecErr {
    fn custom<T: fmt::Display>(m: T) -> Self {
        RecErr(format!("custom:{}", m), 0)
    }
}

#[derive(Default)]
pub struct Log {
    pub calls: Vec<String>,
    pub fail_at: usize,
    /// what is_human_readable() answers (both answers are generated)
    pub human: bool,
}
type Sh = Rc<RefCell<Log>>;

fn rec(l: &Sh, what: String) -> Result<(), RecErr> {
    untracked(|| {
        let mut g = l.borrow_mut();
        g.calls.push(what);
        if g.fail_at != 0 && g.calls.len() == g.fail_at {
            let n = g.calls.len();
            return Err(RecErr(format!("injected at call {}", n), 7000 + n as u32));
        }
        Ok(())
    })
}

#[derive(Clone)]
pub struct RecSer(pub Sh);

macro_rules! prim {
    ($f:ident, $t:ty) => {
        fn $f(self, v: $t) -> Result<(), RecErr> {
            rec(&self.0, format!(concat!(stringify!($f), "({:?})"), v))
        }
    };
}

impl Serializer for RecSer {
    type Ok = ();
    type Error = RecErr;
    type SerializeSeq = RecSer;
    type SerializeTuple = RecSer;
    type SerializeTupleStruct = RecSer;
    type SerializeTupleVariant = RecSer;
    type SerializeMap = RecSer;
    type SerializeStruct = RecSer;
    type SerializeStructVariant = RecSer;
    fn is_human_readable(&self) -> bool {
        self.0.borrow().human
    }
    prim!(serialize_bool, bool);
    prim!(serialize_i8, i8);
    prim!(serialize_i16, i16);
    prim!(serialize_i32, i32);
    prim!(serialize_i64, i64);
    prim!(serialize_i128, i128);
    prim!(serialize_u8, u8);
    prim!(serialize_u16, u16);
    prim!(serialize_u32, u32);
    prim!(serialize_u64, u64);
    prim!(serialize_u128, u128);
    prim!(serialize_char, char);
    prim!(serialize_str, &str);
    prim!(serialize_bytes, &[u8]);
    fn serialize_f32(self, v: f32) -> Result<(), RecErr> {
        rec(&self.0, format!("serialize_f32({:#x})", v.to_bits()))
    }
    fn serialize_f64(self, v: f64) -> Result<(), RecErr> {
        rec(&self.0, format!("serialize_f64({:#x})", v.to_bits()))
    }
    fn serialize_none(self) -> Result<(), RecErr> {
        rec(&self.0, "serialize_none".into())
    }
    fn serialize_some<T: ?Sized + Serialize>(self, v: &T) -> Result<(), RecErr> {
        rec(&self.0, "serialize_some".into())?;
        v.serialize(self)
    }
    fn serialize_unit(self) -> Result<(), RecErr> {
        rec(&self.0, "serialize_unit".into())
    }
    fn serialize_unit_struct(self, n: &'static str) -> Result<(), RecErr> {
        rec(&self.0, format!("serialize_unit_struct({})", n))
    }
    fn serialize_unit_variant(self, n: &'static str, i: u32, v: &'static str) -> Result<(), RecErr> {
        rec(&self.0, format!("serialize_unit_variant({},{},{})", n, i, v))
    }
    fn serialize_newtype_struct<T: ?Sized + Serialize>(self, n: &'static str, v: &T) -> Result<(), RecErr> {
        rec(&self.0, format!("serialize_newtype_struct({})", n))?;
        v.serialize(self)
    }
    fn serialize_newtype_variant<T: ?Sized + Serialize>(self, n: &'static str, i: u32, vn: &'static str, v: &T) -> Result<(), RecErr> {
        rec(&self.0, format!("serialize_newtype_variant({},{},{})", n, i, vn))?;
        v.serialize(self)
    }
    fn serialize_seq(self, len: Option<usize>) -> Result<RecSer, RecErr> {
        rec(&self.0, format!("serialize_seq({:?})", len))?;
        Ok(self)
    }
    fn serialize_tuple(self, len: usize) -> Result<RecSer, RecErr> {
        rec(&self.0, format!("serialize_tuple({})", len))?;
        Ok(self)
    }
    fn serialize_tuple_struct(self, n: &'static str, len: usize) -> Result<RecSer, RecErr> {
        rec(&self.0, format!("serialize_tuple_struct({},{})", n, len))?;
        Ok(self)
    }
    fn serialize_tuple_variant(self, n: &'static str, i: u32, v: &'static str, len: usize) -> Result<RecSer, RecErr> {
        rec(&self.0, format!("serialize_tuple_variant({},{},{},{})", n, i, v, len))?;
        Ok(self)
    }
    fn serialize_map(self, len: Option<usize>) -> Result<RecSer, RecErr> {
        rec(&self.0, format!("serialize_map({:?})", len))?;
        Ok(self)
    }
    fn serialize_struct(self, n: &'static str, len: usize) -> Result<RecSer, RecErr> {
        rec(&self.0, format!("serialize_struct({},{})", n, len))?;
        Ok(self)
    }
    fn serialize_struct_variant(self, n: &'static str, i: u32, v: &'static str, len: usize) -> Result<RecSer, RecErr> {
        rec(&self.0, format!("serialize_struct_variant({},{},{},{})", n, i, v, len))?;
        Ok(self)
    }
}
impl SerializeSeq for RecSer {
    type Ok = ();
    type Error = RecErr;
    fn serialize_element<T: ?Sized + Serialize>(&mut self, v: &T) -> Result<(), RecErr> {
        rec(&self.0, "element".into())?;
        v.serialize(self.clone())
    }
    fn end(self) -> Result<(), RecErr> {
        rec(&self.0, "end".into())
    }
}
impl SerializeTuple for RecSer {
    type Ok = ();
    type Error = RecErr;
    fn serialize_element<T: ?Sized + Serialize>(&mut self, v: &T) -> Result<(), RecErr> {
        rec(&self.0, "tuple-element".into())?;
        v.serialize(self.clone())
    }
    fn end(self) -> Result<(), RecErr> {
        rec(&self.0, "end".into())
    }
}
impl SerializeTupleStruct for RecSer {
    type Ok = ();
    type Error = RecErr;
    fn serialize_field<T: ?Sized + Serialize>(&mut self, v: &T) -> Result<(), RecErr> {
        rec(&self.0, "ts-field".into())?;
        v.serialize(self.clone())
    }
    fn end(self) -> Result<(), RecErr> {
        rec(&self.0, "end".into())
    }
}
impl SerializeTupleVariant for RecSer {
    type Ok = ();
    type Error = RecErr;
    fn serialize_field<T: ?Sized + Serialize>(&mut self, v: &T) -> Result<(), RecErr> {
        rec(&self.0, "tv-field".into())?;
        v.serialize(self.clone())
    }
    fn end(self) -> Result<(), RecErr> {
        rec(&self.0, "end".into())
    }
}
impl SerializeMap for RecSer {
    type Ok = ();
    type Error = RecErr;
    fn serialize_key<T: ?Sized + Serialize>(&mut self, v: &T) -> Result<(), RecErr> {
        rec(&self.0, "key".into())?;
        v.serialize(self.clone())
    }
    fn serialize_value<T: ?Sized + Serialize>(&mut self, v: &T) -> Result<(), RecErr> {
        rec(&self.0, "value".into())?;
        v.serialize(self.clone())
    }
    fn end(self) -> Result<(), RecErr> {
        rec(&self.0, "end".into())
    }
}
impl SerializeStruct for RecSer {
    type Ok = ();
    type Error = RecErr;
    fn serialize_field<T: ?Sized + Serialize>(&mut self, k: &'static str, v: &T) -> Result<(), RecErr> {
        rec(&self.0, format!("field({})", k))?;
        v.serialize(self.clone())
    }
    fn end(self) -> Result<(), RecErr> {
        rec(&self.0, "end".into())
    }
}
impl SerializeStructVariant for RecSer {
    type Ok = ();
    type Error = RecErr;
    fn serialize_field<T: ?Sized + Serialize>(&mut self, k: &'static str, v: &T) -> Result<(), RecErr> {
        rec(&self.0, format!("sv-field({})", k))?;
        v.serialize(self.clone())
    }
    fn end(self) -> Result<(), RecErr> {
        rec(&self.0, "end".into())
    }
}

// ---------------------------------------------------------------------------------
// recording / failing deserializer over a Val
// ---------------------------------------------------------------------------------
pub struct ValDe<'a> {
    pub v: &'a Val,
    pub log: Sh,
}

struct SeqA<'a> {
    it: std::slice::Iter<'a, Val>,
    log: Sh,
}
impl<'de, 'a> SeqAccess<'de> for SeqA<'a> {
    type Error = RecErr;
    fn next_element_seed<T: DeserializeSeed<'de>>(&mut self, seed: T) -> Result<Option<T::Value>, RecErr> {
        rec(&self.log, "next_element".into())?;
        match self.it.next() {
            Some(v) => seed.deserialize(ValDe { v, log: self.log.clone() }).map(Some),
            None => Ok(None),
        }
    }
}
struct MapA<'a> {
    it: std::slice::Iter<'a, (Val, Val)>,
    cur: Option<&'a Val>,
    log: Sh,
}
impl<'de, 'a> MapAccess<'de> for MapA<'a> {
    type Error = RecErr;
    fn next_key_seed<K: DeserializeSeed<'de>>(&mut self, seed: K) -> Result<Option<K::Value>, RecErr> {
        rec(&self.log, "next_key".into())?;
        match self.it.next() {
            Some((k, v)) => {
                self.cur = Some(v);
                seed.deserialize(ValDe { v: k, log: self.log.clone() }).map(Some)
            }
            None => Ok(None),
        }
    }
    fn next_value_seed<V: DeserializeSeed<'de>>(&mut self, seed: V) -> Result<V::Value, RecErr> {
        rec(&self.log, "next_value".into())?;
        seed.deserialize(ValDe { v: self.cur.take().unwrap(), log: self.log.clone() })
    }
}
struct EnumA<'a> {
    v: &'a Val,
    log: Sh,
}
impl<'de, 'a> EnumAccess<'de> for EnumA<'a> {
    type Error = RecErr;
    type Variant = EnumA<'a>;
    fn variant_seed<V: DeserializeSeed<'de>>(self, seed: V) -> Result<(V::Value, EnumA<'a>), RecErr> {
        rec(&self.log, "variant".into())?;
        let idx: u32 = match self.v {
            Val::UnitVariant => 0,
            Val::NewtypeVariant(_) => 1,
            Val::TupleVariant(_) => 2,
            _ => 3,
        };
        let k = seed.deserialize(de::value::U32Deserializer::<RecErr>::new(idx))?;
        Ok((k, self))
    }
}
impl<'de, 'a> VariantAccess<'de> for EnumA<'a> {
    type Error = RecErr;
    fn unit_variant(self) -> Result<(), RecErr> {
        rec(&self.log, "unit_variant".into())
    }
    fn newtype_variant_seed<T: DeserializeSeed<'de>>(self, seed: T) -> Result<T::Value, RecErr> {
        rec(&self.log, "newtype_variant".into())?;
        match self.v {
            Val::NewtypeVariant(x) => seed.deserialize(ValDe { v: x, log: self.log.clone() }),
            _ => Err(RecErr("not a newtype variant".into(), 1)),
        }
    }
    fn tuple_variant<V: Visitor<'de>>(self, _len: usize, visitor: V) -> Result<V::Value, RecErr> {
        rec(&self.log, "tuple_variant".into())?;
        match self.v {
            Val::TupleVariant(v) => visitor.visit_seq(SeqA { it: v.iter(), log: self.log.clone() }),
            _ => Err(RecErr("not a tuple variant".into(), 2)),
        }
    }
    fn struct_variant<V: Visitor<'de>>(self, _f: &'static [&'static str], visitor: V) -> Result<V::Value, RecErr> {
        rec(&self.log, "struct_variant".into())?;
        match self.v {
            Val::StructVariant(v) => visitor.visit_seq(SeqA { it: v.iter(), log: self.log.clone() }),
            _ => Err(RecErr("not a struct variant".into(), 3)),
        }
    }
}

impl<'de, 'a> Deserializer<'de> for ValDe<'a> {
    type Error = RecErr;
    fn is_human_readable(&self) -> bool {
        self.log.borrow().human
    }
    fn deserialize_any<V: Visitor<'de>>(self, visitor: V) -> Result<V::Value, RecErr> {
        rec(&self.log, "deserialize_any".into())?;
        let log = self.log.clone();
        match self.v {
            Val::Bool(x) => visitor.visit_bool(*x),
            Val::I8(x) => visitor.visit_i8(*x),
            Val::I16(x) => visitor.visit_i16(*x),
            Val::I32(x) => visitor.visit_i32(*x),
            Val::I64(x) => visitor.visit_i64(*x),
            Val::I128(x) => visitor.visit_i128(*x),
            Val::U8(x) => visitor.visit_u8(*x),
            Val::U16(x) => visitor.visit_u16(*x),
            Val::U32(x) => visitor.visit_u32(*x),
            Val::U64(x) => visitor.visit_u64(*x),
            Val::U128(x) => visitor.visit_u128(*x),
            Val::F32(x) => visitor.visit_f32(f32::from_bits(*x)),
            Val::F64(x) => visitor.visit_f64(f64::from_bits(*x)),
            Val::Char(x) => visitor.visit_char(*x),
            Val::Str(x) => visitor.visit_str(x),
            Val::Bytes(x) => visitor.visit_bytes(x),
            Val::None => visitor.visit_none(),
            Val::Some(x) => visitor.visit_some(ValDe { v: x, log }),
            Val::Unit | Val::UnitStruct => visitor.visit_unit(),
            Val::Newtype(x) => visitor.visit_newtype_struct(ValDe { v: x, log }),
            Val::Seq(v) | Val::Tuple(v) | Val::TupleStruct(v) | Val::Struct(v) => visitor.visit_seq(SeqA { it: v.iter(), log }),
            Val::Map(m) => visitor.visit_map(MapA { it: m.iter(), cur: None, log }),
            Val::UnitVariant | Val::NewtypeVariant(_) | Val::TupleVariant(_) | Val::StructVariant(_) => visitor.visit_enum(EnumA { v: self.v, log }),
        }
    }
    serde::forward_to_deserialize_any! {
        bool i8 i16 i32 i64 i128 u8 u16 u32 u64 u128 f32 f64 char str string bytes byte_buf option unit unit_struct
        newtype_struct seq tuple tuple_struct map struct enum identifier ignored_any
    }
}

struct ValVisitor;
impl<'de> Visitor<'de> for ValVisitor {
    type Value = Val;
    fn expecting(&self, f: &mut fmt::Formatter) -> fmt::Result {
        write!(f, "any Val")
    }
    fn visit_bool<E>(self, v: bool) -> Result<Val, E> {
        Ok(Val::Bool(v))
    }
    fn visit_i8<E>(self, v: i8) -> Result<Val, E> {
        Ok(Val::I8(v))
    }
    fn visit_i16<E>(self, v: i16) -> Result<Val, E> {
        Ok(Val::I16(v))
    }
    fn visit_i32<E>(self, v: i32) -> Result<Val, E> {
        Ok(Val::I32(v))
    }
    fn visit_i64<E>(self, v: i64) -> Result<Val, E> {
        Ok(Val::I64(v))
    }
    fn visit_i128<E>(self, v: i128) -> Result<Val, E> {
        Ok(Val::I128(v))
    }
    fn visit_u8<E>(self, v: u8) -> Result<Val, E> {
        Ok(Val::U8(v))
    }
    fn visit_u16<E>(self, v: u16) -> Result<Val, E> {
        Ok(Val::U16(v))
    }
    fn visit_u32<E>(self, v: u32) -> Result<Val, E> {
        Ok(Val::U32(v))
    }
    fn visit_u64<E>(self, v: u64) -> Result<Val, E> {
        Ok(Val::U64(v))
    }
    fn visit_u128<E>(self, v: u128) -> Result<Val, E> {
        Ok(Val::U128(v))
    }
    fn visit_f32<E>(self, v: f32) -> Result<Val, E> {
        Ok(Val::F32(v.to_bits()))
    }
    fn visit_f64<E>(self, v: f64) -> Result<Val, E> {
        Ok(Val::F64(v.to_bits()))
    }
    fn visit_char<E>(self, v: char) -> Result<Val, E> {
        Ok(Val::Char(v))
    }
    fn visit_str<E>(self, v: &str) -> Result<Val, E> {
        Ok(Val::Str(v.to_string()))
    }
    fn visit_bytes<E>(self, v: &[u8]) -> Result<Val, E> {
        Ok(Val::Bytes(v.to_vec()))
    }
    fn visit_none<E>(self) -> Result<Val, E> {
        Ok(Val::None)
    }
    fn visit_some<D: Deserializer<'de>>(self, d: D) -> Result<Val, D::Error> {
        Ok(Val::Some(Box::new(Val::deserialize(d)?)))
    }
    fn visit_unit<E>(self) -> Result<Val, E> {
        Ok(Val::Unit)
    }
    fn visit_newtype_struct<D: Deserializer<'de>>(self, d: D) -> Result<Val, D::Error> {
        Ok(Val::Newtype(Box::new(Val::deserialize(d)?)))
    }
    fn visit_seq<A: SeqAccess<'de>>(self, mut a: A) -> Result<Val, A::Error> {
        let mut v = vec![];
        while let Some(x) = a.next_element::<Val>()? {
            v.push(x);
        }
        Ok(Val::Seq(v))
    }
    fn visit_map<A: MapAccess<'de>>(self, mut a: A) -> Result<Val, A::Error> {
        let mut v = vec![];
        while let Some(k) = a.next_key::<Val>()? {
            let x = a.next_value::<Val>()?;
            v.push((k, x));
        }
        Ok(Val::Map(v))
    }
    fn visit_enum<A: EnumAccess<'de>>(self, a: A) -> Result<Val, A::Error> {
        let (idx, va): (u32, A::Variant) = a.variant()?;
        match idx {
            0 => {
                va.unit_variant()?;
                Ok(Val::UnitVariant)
            }
            1 => Ok(Val::NewtypeVariant(Box::new(va.newtype_variant::<Val>()?))),
            2 => match va.tuple_variant(0, ValVisitor)? {
                Val::Seq(v) => Ok(Val::TupleVariant(v)),
                o => Ok(o),
            },
            _ => match va.struct_variant(&[], ValVisitor)? {
                Val::Seq(v) => Ok(Val::StructVariant(v)),
                o => Ok(o),
            },
        }
    }
}
impl<'de> Deserialize<'de> for Val {
    fn deserialize<D: Deserializer<'de>>(d: D) -> Result<Val, D::Error> {
        d.deserialize_any(ValVisitor)
    }
}

// ---------------------------------------------------------------------------------
// generation from bytes
// ---------------------------------------------------------------------------------
struct Src<'a> {
    b: &'a [u8],
    i: usize,
}
impl<'a> Src<'a> {
    fn u8(&mut self) -> u8 {
        let x = self.b.get(self.i).copied().unwrap_or(0);
        self.i += 1;
        x
    }
    fn u64(&mut self) -> u64 {
        let mut x = 0u64;
        for _ in 0..8 {
            x = x << 8 | self.u8() as u64;
        }
        x
    }
}

fn gen(s: &mut Src, depth: usize) -> Val {
    let t = s.u8();
    let leaf = depth >= 4 || s.i >= s.b.len();
    let k = if leaf { t % 17 } else { t % 30 };
    let width = |s: &mut Src| (s.u8() % 7) as usize;
    match k {
        0 => Val::Bool(s.u8() & 1 == 1),
        1 => Val::I8(s.u8() as i8),
        2 => Val::I16(s.u64() as i16),
        3 => Val::I32(s.u64() as i32),
        4 => Val::I64(s.u64() as i64),
        5 => Val::I128(((s.u64() as u128) << 64 | s.u64() as u128) as i128),
        6 => Val::U8(s.u8()),
        7 => Val::U16(s.u64() as u16),
        8 => Val::U32(s.u64() as u32),
        9 => Val::U64(s.u64()),
        10 => Val::U128((s.u64() as u128) << 64 | s.u64() as u128),
        11 => Val::F32(s.u64() as u32),
        12 => Val::F64(s.u64()),
        13 => Val::Char(char::from_u32(s.u64() as u32 % 0x11_0000).unwrap_or('\u{fffd}')),
        14 => {
            let n = width(s);
            Val::Str((0..n).map(|_| char::from_u32(0x20 + (s.u8() as u32) * 3).unwrap_or('x')).collect())
        }
        15 => {
            let n = width(s);
            Val::Bytes((0..n).map(|_| s.u8()).collect())
        }
        16 => match s.u8() % 4 {
            0 => Val::None,
            1 => Val::Unit,
            2 => Val::UnitStruct,
            _ => Val::UnitVariant,
        },
        17 => Val::Some(Box::new(gen(s, depth + 1))),
        18 => Val::Newtype(Box::new(gen(s, depth + 1))),
        19 => Val::NewtypeVariant(Box::new(gen(s, depth + 1))),
        20 | 21 => {
            let n = width(s);
            Val::Seq((0..n).map(|_| gen(s, depth + 1)).collect())
        }
        22 => {
            let n = width(s);
            Val::Tuple((0..n).map(|_| gen(s, depth + 1)).collect())
        }
        23 => {
            let n = width(s);
            Val::TupleStruct((0..n).map(|_| gen(s, depth + 1)).collect())
        }
        24 | 25 => {
            let n = width(s);
            Val::Map((0..n).map(|_| (gen(s, depth + 1), gen(s, depth + 1))).collect())
        }
        26 | 27 => {
            let n = width(s);
            Val::Struct((0..n).map(|_| gen(s, depth + 1)).collect())
        }
        28 => {
            let n = width(s);
            Val::TupleVariant((0..n).map(|_| gen(s, depth + 1)).collect())
        }
        _ => {
            let n = width(s);
            Val::StructVariant((0..n).map(|_| gen(s, depth + 1)).collect())
        }
    }
}

thread_local! {
    static HUMAN: std::cell::Cell<bool> = const { std::cell::Cell::new(true) };
}
fn new_log(fail_at: usize) -> Sh {
    Rc::new(RefCell::new(Log { calls: vec![], fail_at, human: HUMAN.with(|h| h.get()) }))
}

pub struct SerdeEngine;

impl Engine for SerdeEngine {
    fn name(&self) -> String {
        "serde".into()
    }
    fn params_len(&self) -> usize {
        4
    }
    fn ops_range(&self) -> (usize, usize) {
        (1, 48)
    }
    fn run(&self, c: &ByteCase, trace: bool) -> CaseReport {
        let _ = alloc::case_end();
        let _ = viol::take();
        let flat: Vec<u8> = c.ops.iter().flat_map(|o| o.iter().copied()).collect();
        let val = gen(&mut Src { b: &flat, i: 0 }, 0);
        let depth = val.depth();
        let human = c.p(0) & 1 == 0;
        HUMAN.with(|h| h.set(human));
        let mut tr = vec![];
        if trace {
            tr.push(format!("value: {:?}", val));
        }
        // ---- serialisation: fault-free run to learn the number of calls, then k = 1..calls+1 ----
        let l0 = new_log(0);
        let _ = val.serialize(RecSer(l0.clone()));
        let calls = l0.borrow().calls.len();
        // pick the injection points from the params (all of them when there are few)
        let mut ks: Vec<usize> = vec![0];
        if calls <= 12 {
            ks.extend(1..=calls + 1);
        } else {
            for i in 0..4 {
                ks.push(1 + (c.p(i) as usize * (calls + 1)) / 256);
            }
            ks.push(calls);
            ks.push(calls + 1);
        }
        let mut injected_inside = false;
        let (arc, e_arc) = track(|| Arc::new(val.clone()));
        let _ = e_arc;
        let uniq = UniqueArc::new(val.clone());
        for &k in &ks {
            let lv = new_log(k);
            let rv = val.serialize(RecSer(lv.clone()));
            let la = new_log(k);
            let ra = arc.serialize(RecSer(la.clone()));
            let lu = new_log(k);
            let ru = uniq.serialize(RecSer(lu.clone()));
            if k >= 1 && k <= calls {
                injected_inside = true;
            }
            for (name, r, l) in [("Arc", &ra, &la), ("UniqueArc", &ru, &lu)] {
                if l.borrow().calls != lv.borrow().calls {
                    let (a, b) = (l.borrow().calls.clone(), lv.borrow().calls.clone());
                    let i = a.iter().zip(b.iter()).position(|(x, y)| x != y).unwrap_or(a.len().min(b.len()));
                    viol::report_sig(P, "D.ser-trace", format!("{}.serialize:trace", name), format!("{}<Val>::serialize drives the serializer differently from Val::serialize at call {}: {:?} vs {:?} (fault at {})", name, i + 1, a.get(i), b.get(i), k));
                }
                if *r != rv {
                    viol::report_sig(P, "D.ser-result", format!("{}.serialize:result", name), format!("{}<Val>::serialize returned {:?} but Val::serialize returned {:?} (fault at {})", name, r, rv, k));
                }
            }
            if trace && k == 0 {
                tr.push(format!("serializer calls ({}): {:?}", calls, lv.borrow().calls));
            }
        }
        if Arc::count(&arc) != 1 {
            viol::report_sig(P, "D.ser-count", "Arc.serialize:count".into(), format!("serialising changed the count to {}", Arc::count(&arc)));
        }
        drop(uniq);
        drop(arc);
        // ---- deserialisation ----
        let l0 = new_log(0);
        let base = Val::deserialize(ValDe { v: &val, log: l0.clone() });
        let dcalls = l0.borrow().calls.len();
        let mut ks: Vec<usize> = vec![0];
        if dcalls <= 12 {
            ks.extend(1..=dcalls + 1);
        } else {
            for i in 0..4 {
                ks.push(1 + (c.p(3 - i) as usize * (dcalls + 1)) / 256);
            }
            ks.push(dcalls);
        }
        let _ = base;
        for &k in &ks {
            if k >= 1 && k <= dcalls {
                injected_inside = true;
            }
            let before = alloc::live_blocks().len();
            let lv = new_log(k);
            let (rv, _) = track(|| Val::deserialize(ValDe { v: &val, log: lv.clone() }));
            let la = new_log(k);
            let (ra, ea) = track(|| Arc::<Val>::deserialize(ValDe { v: &val, log: la.clone() }));
            let lu = new_log(k);
            let (ru, _eu) = track(|| UniqueArc::<Val>::deserialize(ValDe { v: &val, log: lu.clone() }));
            if la.borrow().calls != lv.borrow().calls || lu.borrow().calls != lv.borrow().calls {
                viol::report_sig(P, "D.de-trace", "deserialize:trace".into(), format!("Arc/UniqueArc::deserialize drives the deserializer differently from Val::deserialize (fault at {})", k));
            }
            match (&rv, &ra) {
                (Ok(v), Ok(a)) => {
                    if **a != *v {
                        viol::report_sig(P, "D.de-value", "Arc.deserialize:value".into(), format!("Arc::deserialize produced {:?} but the value's own deserialiser produced {:?}", **a, v));
                    }
                    if Arc::count(a) != 1 || !a.is_unique() {
                        viol::report_sig(P, "D.de-count", "Arc.deserialize:count".into(), format!("Arc::deserialize produced a handle with count {}", Arc::count(a)));
                    }
                    let hp = a.heap_ptr() as usize;
                    if !ea.allocs.iter().any(|b| b.ptr == hp) {
                        viol::report_sig(P, "D.de-fresh", "Arc.deserialize:fresh".into(), "the Arc produced by deserialize does not live in a block allocated during the call".into());
                    }
                }
                (Err(e1), Err(e2)) => {
                    if e1 != e2 {
                        viol::report_sig(P, "D.de-error", "Arc.deserialize:error".into(), format!("Arc::deserialize failed with {:?} but the value's deserialiser with {:?}", e2, e1));
                    }
                }
                (a, b) => {
                    viol::report_sig(P, "D.de-result", "Arc.deserialize:result".into(), format!("value deserialiser: {:?}; Arc deserialiser: {:?}", a.is_ok(), b.is_ok()));
                }
            }
            match (&rv, &ru) {
                (Ok(v), Ok(u)) => {
                    if **u != *v {
                        viol::report_sig(P, "D.de-value", "UniqueArc.deserialize:value".into(), "UniqueArc::deserialize produced a different value".into());
                    }
                }
                (Err(e1), Err(e2)) => {
                    if e1 != e2 {
                        viol::report_sig(P, "D.de-error", "UniqueArc.deserialize:error".into(), format!("UniqueArc::deserialize failed with {:?}, value with {:?}", e2, e1));
                    }
                }
                (a, b) => {
                    viol::report_sig(P, "D.de-result", "UniqueArc.deserialize:result".into(), format!("value deserialiser ok={} UniqueArc deserialiser ok={}", a.is_ok(), b.is_ok()));
                }
            }
            // (the recorder's own strings were formatted while tracking was on: release them first)
            drop(lv);
            drop(la);
            drop(lu);
            if ra.is_err() {
                // nothing allocated during the handle's call may survive an error
                let err_blocks = 0; // the error value is built by the recorder outside tracking
                let survivors = ea.allocs.iter().filter(|b| alloc::block_by_seq(b.seq).map(|x| x.live).unwrap_or(false)).count();
                if survivors > err_blocks {
                    viol::report_sig(P, "D.de-leak", "Arc.deserialize:leak-on-error".into(), format!("{} blocks allocated during a failing Arc::deserialize are still allocated", survivors));
                }
            }
            drop(rv);
            drop(ra);
            drop(ru);
            let after = alloc::live_blocks().len();
            if after != before {
                viol::report_sig(P, "D.de-leak", "deserialize:net-leak".into(), format!("{} tracked blocks before, {} after dropping every result (fault at {})", before, after, k));
            }
        }
        // ---- deserialize_in_place: the target handle becomes a fresh sole owner, a co-owner keeps the old value ----
        {
            let old = Val::U32(424242);
            let mut target = Arc::new(old.clone());
            let keeper = target.clone();
            let l = new_log(0);
            let r = track(|| <Arc<Val> as Deserialize>::deserialize_in_place(ValDe { v: &val, log: l.clone() }, &mut target)).0;
            let expect = Val::deserialize(ValDe { v: &val, log: new_log(0) });
            match (r, expect) {
                (Ok(()), Ok(v)) => {
                    if *target != v {
                        viol::report_sig(P, "D.in-place-value", "Arc.deserialize_in_place:value".into(), "deserialize_in_place left a value different from what the value's own deserialiser yields".into());
                    }
                    if *keeper != old {
                        viol::report_sig(P, "D.in-place-shared", "Arc.deserialize_in_place:shared".into(), format!("deserialize_in_place on a shared Arc changed the value seen through the other handle: {:?}", *keeper));
                    }
                    if Arc::ptr_eq(&target, &keeper) || Arc::count(&target) != 1 || Arc::count(&keeper) != 1 {
                        viol::report_sig(P, "D.in-place-count", "Arc.deserialize_in_place:count".into(), format!("after deserialize_in_place on a shared Arc: same allocation {}, counts {} / {} (expected a fresh sole owner and the old allocation with one owner)", Arc::ptr_eq(&target, &keeper), Arc::count(&target), Arc::count(&keeper)));
                    }
                }
                (Err(_), Err(_)) => {
                    if *keeper != old || Arc::count(&keeper) > 2 {
                        viol::report_sig(P, "D.in-place-shared", "Arc.deserialize_in_place:error".into(), "a failing deserialize_in_place disturbed the co-owner".into());
                    }
                }
                (a, b) => viol::report_sig(P, "D.in-place-result", "Arc.deserialize_in_place:result".into(), format!("in place ok={} value ok={}", a.is_ok(), b.is_ok())),
            }
            drop(l);
            // unique targets too (Arc and UniqueArc)
            let mut t2 = Arc::new(Val::Unit);
            let mut u2 = UniqueArc::new(Val::Unit);
            let r2 = <Arc<Val> as Deserialize>::deserialize_in_place(ValDe { v: &val, log: new_log(0) }, &mut t2);
            let r3 = <UniqueArc<Val> as Deserialize>::deserialize_in_place(ValDe { v: &val, log: new_log(0) }, &mut u2);
            if let (Ok(()), Ok(()), Ok(v)) = (r2, r3, Val::deserialize(ValDe { v: &val, log: new_log(0) })) {
                if *t2 != v || *u2 != v || Arc::count(&t2) != 1 {
                    viol::report_sig(P, "D.in-place-value", "deserialize_in_place:unique".into(), "deserialize_in_place on a unique handle produced a different value / count".into());
                }
            }
        }
        // ---- two deserialisations of the same input are two fresh sole owners (no interning) ----
        {
            let a = Arc::<Val>::deserialize(ValDe { v: &val, log: new_log(0) });
            let b = Arc::<Val>::deserialize(ValDe { v: &val, log: new_log(0) });
            if let (Ok(a), Ok(b)) = (&a, &b) {
                if Arc::ptr_eq(a, b) || Arc::count(a) != 1 || Arc::count(b) != 1 {
                    viol::report_sig(P, "D.de-fresh", "Arc.deserialize:interned".into(), format!("two deserialisations of the same input share an allocation or are not sole owners (counts {} / {})", Arc::count(a), Arc::count(b)));
                }
            }
        }
        // ---- concrete payload types through serde's own in-memory deserialisers ----
        concrete(c);
        unsized_probes(c);
        spy_probe();
        // ---- the same value inside payload types of other inline sizes and alignments ----
        match c.p(1) % 5 {
            0 => shaped::<Pad<16>>(&val, c),
            1 => shaped::<Pad<160>>(&val, c),
            2 => shaped::<Pad<1024>>(&val, c),
            3 => shaped::<Over64>(&val, c),
            _ => zst_unit(c),
        }
        let nontrivial = depth >= 2 || injected_inside;
        let mut labels: Vec<&'static str> = vec![];
        if depth >= 2 {
            labels.push("depth>=2");
        }
        if depth >= 3 {
            labels.push("depth>=3");
        }
        if injected_inside {
            labels.push("fault-inside-call");
        }
        if calls > 12 {
            labels.push(">12-serializer-calls");
        }
        labels.push(if human { "is_human_readable=true" } else { "is_human_readable=false" });
        let _ = alloc::case_end();
        CaseReport { viols: viol::take(), nontrivial, labels, trace: tr }
    }
}

/// A payload type that (de)serialises exactly like the `Val` inside it but has another inline size / alignment
/// (the handles allocate for the payload type, not for the serialised form).
pub trait Shape: Serialize + for<'de> Deserialize<'de> + 'static {
    const NAME: &'static str;
    fn val(&self) -> &Val;
}
pub struct Pad<const N: usize> {
    v: Val,
    #[allow(dead_code)]
    pad: [u64; N],
}
impl<const N: usize> Serialize for Pad<N> {
    fn serialize<S: Serializer>(&self, s: S) -> Result<S::Ok, S::Error> {
        self.v.serialize(s)
    }
}
impl<'de, const N: usize> Deserialize<'de> for Pad<N> {
    fn deserialize<D: Deserializer<'de>>(d: D) -> Result<Self, D::Error> {
        Val::deserialize(d).map(|v| Pad { v, pad: [0x5151_5151_5151_5151; N] })
    }
}
impl<const N: usize> Shape for Pad<N> {
    const NAME: &'static str = "Val + inline padding";
    fn val(&self) -> &Val {
        &self.v
    }
}
#[repr(align(64))]
pub struct Over64 {
    v: Val,
}
impl Serialize for Over64 {
    fn serialize<S: Serializer>(&self, s: S) -> Result<S::Ok, S::Error> {
        self.v.serialize(s)
    }
}
impl<'de> Deserialize<'de> for Over64 {
    fn deserialize<D: Deserializer<'de>>(d: D) -> Result<Self, D::Error> {
        Val::deserialize(d).map(|v| Over64 { v })
    }
}
impl Shape for Over64 {
    const NAME: &'static str = "Val in a 64-byte-aligned struct";
    fn val(&self) -> &Val {
        &self.v
    }
}

fn shaped<W: Shape>(val: &Val, c: &ByteCase) {
    let what = format!("{} ({} bytes, align {})", W::NAME, std::mem::size_of::<W>(), std::mem::align_of::<W>());
    let l0 = new_log(0);
    let _ = Val::deserialize(ValDe { v: val, log: l0.clone() });
    let dcalls = l0.borrow().calls.len();
    drop(l0);
    let mut ks: Vec<usize> = vec![0, 1, dcalls, dcalls + 1];
    ks.push(1 + (c.p(2) as usize * (dcalls + 1)) / 256);
    ks.push(1 + (c.p(3) as usize * (dcalls + 1)) / 256);
    for &k in &ks {
        let before = alloc::live_blocks().len();
        let lv = new_log(k);
        let (rv, _) = track(|| Val::deserialize(ValDe { v: val, log: lv.clone() }));
        let la = new_log(k);
        let (ra, ea) = track(|| Arc::<W>::deserialize(ValDe { v: val, log: la.clone() }));
        let lu = new_log(k);
        let (ru, eu) = track(|| UniqueArc::<W>::deserialize(ValDe { v: val, log: lu.clone() }));
        if la.borrow().calls != lv.borrow().calls || lu.borrow().calls != lv.borrow().calls {
            viol::report_sig(P, "D.de-trace", "deserialize:trace:shaped".into(), format!("{}: Arc/UniqueArc::deserialize drives the deserializer differently from the payload's own deserialiser (fault at {})", what, k));
        }
        match (&rv, &ra) {
            (Ok(v), Ok(a)) => {
                if a.val() != v || Arc::count(a) != 1 {
                    viol::report_sig(P, "D.de-value", "Arc.deserialize:value:shaped".into(), format!("{}: Arc::deserialize produced {:?} (count {}), the payload's deserialiser {:?}", what, a.val(), Arc::count(a), v));
                }
                let hp = a.heap_ptr() as usize;
                if !ea.allocs.iter().any(|b| b.ptr == hp) || hp % std::mem::align_of::<W>() != 0 {
                    viol::report_sig(P, "D.de-fresh", "Arc.deserialize:fresh:shaped".into(), format!("{}: the Arc produced by deserialize does not live in a (suitably aligned) block allocated during the call", what));
                }
                // serialising the handle equals serialising the value
                let (ls, lw) = (new_log(0), new_log(0));
                let (r1, r2) = (v.serialize(RecSer(ls.clone())), a.serialize(RecSer(lw.clone())));
                if ls.borrow().calls != lw.borrow().calls || r1 != r2 {
                    viol::report_sig(P, "D.ser-trace", "Arc.serialize:trace:shaped".into(), format!("{}: Arc::serialize differs from the payload's serialisation", what));
                }
            }
            (Err(e1), Err(e2)) => {
                if e1 != e2 {
                    viol::report_sig(P, "D.de-error", "Arc.deserialize:error:shaped".into(), format!("{}: Arc::deserialize failed with {:?} but the payload's deserialiser with {:?}", what, e2, e1));
                }
            }
            (a, b) => viol::report_sig(P, "D.de-result", "Arc.deserialize:result:shaped".into(), format!("{}: payload deserialiser ok={} Arc deserialiser ok={}", what, a.is_ok(), b.is_ok())),
        }
        match (&rv, &ru) {
            (Ok(v), Ok(u)) => {
                if u.val() != v {
                    viol::report_sig(P, "D.de-value", "UniqueArc.deserialize:value:shaped".into(), format!("{}: UniqueArc::deserialize produced a different value", what));
                }
            }
            (Err(e1), Err(e2)) => {
                if e1 != e2 {
                    viol::report_sig(P, "D.de-error", "UniqueArc.deserialize:error:shaped".into(), format!("{}: UniqueArc::deserialize failed with {:?}, the payload with {:?}", what, e2, e1));
                }
            }
            (a, b) => viol::report_sig(P, "D.de-result", "UniqueArc.deserialize:result:shaped".into(), format!("{}: payload deserialiser ok={} UniqueArc deserialiser ok={}", what, a.is_ok(), b.is_ok())),
        }
        drop(lv);
        drop(la);
        drop(lu);
        for (name, failed, eff) in [("Arc", ra.is_err(), &ea), ("UniqueArc", ru.is_err(), &eu)] {
            if failed {
                let survivors = eff.allocs.iter().filter(|b| alloc::block_by_seq(b.seq).map(|x| x.live).unwrap_or(false)).count();
                if survivors > 0 {
                    viol::report_sig(P, "D.de-leak", format!("{}.deserialize:leak-on-error:shaped", name), format!("{}: {} blocks allocated during a failing {}::deserialize are still allocated (fault at {})", what, survivors, name, k));
                }
            }
        }
        drop(rv);
        drop(ra);
        drop(ru);
        let after = alloc::live_blocks().len();
        if after != before {
            viol::report_sig(P, "D.de-leak", "deserialize:net-leak:shaped".into(), format!("{}: {} tracked blocks before, {} after dropping every result (fault at {})", what, before, after, k));
        }
    }
}

/// serde impls that do not exist today (Arc<[T]>, Arc<str>, ThinArc, UniqueArc<[T]>): if one appears it must
/// behave like the owned collection's — probed through autoref, with a sequence whose size_hint is absent,
/// exact, under- or over-reporting (the hint is a capacity hint, never a length).
pub struct OptS<T: ?Sized>(pub std::marker::PhantomData<T>);
pub trait NoSeqDe<T> {
    fn opt_from_seq(&self, _items: &[u32], _hint: Option<usize>) -> Option<Result<Vec<u32>, String>> {
        None
    }
}
impl<T> NoSeqDe<T> for &OptS<T> {}
impl<T: for<'de> Deserialize<'de> + std::ops::Deref<Target = [u32]>> OptS<T> {
    pub fn opt_from_seq(&self, items: &[u32], hint: Option<usize>) -> Option<Result<Vec<u32>, String>> {
        Some(T::deserialize(HintSeqDe { items: items.to_vec(), hint }).map(|h| h.to_vec()).map_err(|e| e.to_string()))
    }
}
pub trait NoStrDe<T> {
    fn opt_from_str(&self, _s: &str) -> Option<Result<String, String>> {
        None
    }
}
impl<T> NoStrDe<T> for &OptS<T> {}
impl<T: for<'de> Deserialize<'de> + std::ops::Deref<Target = str>> OptS<T> {
    pub fn opt_from_str(&self, s: &str) -> Option<Result<String, String>> {
        Some(T::deserialize(serde::de::value::StrDeserializer::<serde::de::value::Error>::new(s)).map(|h| h.to_string()).map_err(|e| e.to_string()))
    }
}

struct HintSeqDe {
    items: Vec<u32>,
    hint: Option<usize>,
}
struct HintSeqAcc {
    it: std::vec::IntoIter<u32>,
    hint: Option<usize>,
}
impl<'de> SeqAccess<'de> for HintSeqAcc {
    type Error = serde::de::value::Error;
    fn next_element_seed<T: DeserializeSeed<'de>>(&mut self, seed: T) -> Result<Option<T::Value>, Self::Error> {
        match self.it.next() {
            Some(x) => seed.deserialize(serde::de::value::U32Deserializer::new(x)).map(Some),
            None => Ok(None),
        }
    }
    fn size_hint(&self) -> Option<usize> {
        self.hint
    }
}
impl<'de> Deserializer<'de> for HintSeqDe {
    type Error = serde::de::value::Error;
    fn deserialize_any<V: Visitor<'de>>(self, v: V) -> Result<V::Value, Self::Error> {
        let hint = self.hint;
        v.visit_seq(HintSeqAcc { it: self.items.into_iter(), hint })
    }
    serde::forward_to_deserialize_any! {
        bool i8 i16 i32 i64 i128 u8 u16 u32 u64 u128 f32 f64 char str string bytes byte_buf option unit unit_struct
        newtype_struct seq tuple tuple_struct map struct enum identifier ignored_any
    }
}

fn unsized_probes(c: &ByteCase) {
    use std::marker::PhantomData as PD;
    let items: Vec<u32> = c.ops.iter().map(|o| u32::from_le_bytes(*o)).collect();
    let n = items.len();
    for hint in [None, Some(n), Some(0), Some(n / 2), Some(n + 3)] {
        let want: Result<Vec<u32>, String> = Vec::<u32>::deserialize(HintSeqDe { items: items.clone(), hint }).map_err(|e| e.to_string());
        macro_rules! seq_kind {
            ($t:ty, $name:expr) => {
                if let Some(got) = (&OptS::<$t>(PD)).opt_from_seq(&items, hint) {
                    if got != want {
                        viol::report_sig(P, "D.de-value", format!("{}.deserialize:hint", $name), format!("{} implements Deserialize: from a {}-element sequence whose size_hint is {:?} it yields {:?}, Vec<u32> yields {:?}", $name, n, hint, got.as_ref().map(|v| v.len()), want.as_ref().map(|v| v.len())));
                    }
                }
            };
        }
        seq_kind!(Arc<[u32]>, "Arc<[u32]>");
        seq_kind!(UniqueArc<[u32]>, "UniqueArc<[u32]>");
        seq_kind!(Arc<Vec<u32>>, "Arc<Vec<u32>>");
        seq_kind!(Arc<Box<[u32]>>, "Arc<Box<[u32]>>");
    }
    let s: String = c.ops.iter().map(|o| char::from_u32(0x61 + (o[0] % 26) as u32).unwrap_or('z')).collect();
    macro_rules! str_kind {
        ($t:ty, $name:expr) => {
            if let Some(got) = (&OptS::<$t>(PD)).opt_from_str(&s) {
                if got != Ok(s.clone()) {
                    viol::report_sig(P, "D.de-value", format!("{}.deserialize", $name), format!("{} implements Deserialize and yields {:?} for {:?}", $name, got, s));
                }
            }
        };
    }
    str_kind!(Arc<str>, "Arc<str>");
    str_kind!(Arc<String>, "Arc<String>");
    str_kind!(Arc<Box<str>>, "Arc<Box<str>>");
}

/// A payload whose own Serialize impl can see the reference count of the allocation it lives in (a copy-on-write
/// node deciding "inline or shared"): serialising through the handle must show it the same count as serialising
/// the value directly.
struct Spy;
thread_local! {
    static SPY_HANDLE: std::cell::Cell<*const Arc<Spy>> = const { std::cell::Cell::new(std::ptr::null()) };
}
impl Serialize for Spy {
    fn serialize<S: Serializer>(&self, s: S) -> Result<S::Ok, S::Error> {
        let p = SPY_HANDLE.with(|c| c.get());
        let n = if p.is_null() { 0 } else { Arc::count(unsafe { &*p }) as u64 };
        s.serialize_u64(n)
    }
}
fn spy_probe() {
    let a = Arc::new(Spy);
    let b = a.clone();
    SPY_HANDLE.with(|c| c.set(&a as *const Arc<Spy>));
    let (lv, lh) = (new_log(0), new_log(0));
    let rv = (*a).serialize(RecSer(lv.clone()));
    let rh = a.serialize(RecSer(lh.clone()));
    SPY_HANDLE.with(|c| c.set(std::ptr::null()));
    if lv.borrow().calls != lh.borrow().calls || rv != rh {
        viol::report_sig(P, "D.ser-trace", "Arc.serialize:count-seen-by-payload".into(), format!("a payload whose Serialize impl reads its allocation's reference count sees {:?} when serialised directly but {:?} through the handle (2 owners exist)", lv.borrow().calls, lh.borrow().calls));
    }
    drop(b);
}

/// A zero-sized payload: `()` (serialises as unit).
fn zst_unit(c: &ByteCase) {
    for k in [0usize, 1, 2] {
        let before = alloc::live_blocks().len();
        let unit = Val::Unit;
        let other = Val::U8(c.p(2));
        for src in [&unit, &other] {
            let lv = new_log(k);
            let rv = <()>::deserialize(ValDe { v: src, log: lv.clone() });
            let la = new_log(k);
            let (ra, _) = track(|| Arc::<()>::deserialize(ValDe { v: src, log: la.clone() }));
            if la.borrow().calls != lv.borrow().calls || rv.is_ok() != ra.is_ok() || rv.as_ref().err() != ra.as_ref().err() {
                viol::report_sig(P, "D.de-trace", "Arc<()>.deserialize".into(), format!("Arc<()>::deserialize differs from <()>::deserialize (fault at {}): {:?} vs {:?}", k, ra.as_ref().map(|_| ()), rv));
            }
            if let Ok(a) = &ra {
                let (ls, lw) = (new_log(0), new_log(0));
                let (r1, r2) = (().serialize(RecSer(ls.clone())), a.serialize(RecSer(lw.clone())));
                if ls.borrow().calls != lw.borrow().calls || r1 != r2 || Arc::count(a) != 1 {
                    viol::report_sig(P, "D.ser-trace", "Arc<()>.serialize".into(), "Arc<()>::serialize differs from ().serialize, or the count is not 1".into());
                }
            }
            drop(lv);
            drop(la);
            drop(ra);
        }
        if alloc::live_blocks().len() != before {
            viol::report_sig(P, "D.de-leak", "Arc<()>.deserialize:leak".into(), format!("blocks leaked by Arc<()>::deserialize (fault at {})", k));
        }
    }
}

fn concrete(c: &ByteCase) {
    use serde::de::value::{Error as VErr, SeqDeserializer, StrDeserializer, U64Deserializer};
    use serde::de::IntoDeserializer;
    let x = u64::from_le_bytes([c.p(0), c.p(1), c.p(2), c.p(3), c.p(0), c.p(1), c.p(2), c.p(3)]);
    let a: Result<Arc<u64>, VErr> = Arc::deserialize(U64Deserializer::new(x));
    let v: Result<u64, VErr> = u64::deserialize(U64Deserializer::new(x));
    if a.as_ref().map(|a| **a).ok() != v.as_ref().ok().copied() {
        viol::report_sig(P, "D.de-value", "Arc<u64>.deserialize".into(), "Arc<u64>::deserialize differs from u64::deserialize".into());
    }
    // a type error must pass through unchanged
    let a: Result<Arc<String>, VErr> = Arc::deserialize(U64Deserializer::new(x));
    let v: Result<String, VErr> = String::deserialize(U64Deserializer::new(x));
    if a.as_ref().err().map(|e| e.to_string()) != v.as_ref().err().map(|e| e.to_string()) || a.is_ok() != v.is_ok() {
        viol::report_sig(P, "D.de-error", "Arc<String>.deserialize:type-error".into(), format!("Arc<String> from a u64: {:?}; String from a u64: {:?}", a.as_ref().err().map(|e| e.to_string()), v.as_ref().err().map(|e| e.to_string())));
    }
    let s: String = c.ops.iter().map(|o| char::from_u32(0x30 + o[0] as u32).unwrap_or('z')).collect();
    let a: Result<Arc<String>, VErr> = Arc::deserialize(StrDeserializer::new(&s));
    if a.as_ref().map(|a| (**a).clone()).ok() != Some(s.clone()) {
        viol::report_sig(P, "D.de-value", "Arc<String>.deserialize".into(), "Arc<String>::deserialize differs from the input".into());
    }
    let items: Vec<u32> = c.ops.iter().map(|o| u32::from_le_bytes(*o)).collect();
    let a: Result<Arc<Vec<u32>>, VErr> = Arc::deserialize(SeqDeserializer::new(items.clone().into_iter()));
    if a.as_ref().map(|a| (**a).clone()).ok() != Some(items.clone()) {
        viol::report_sig(P, "D.de-value", "Arc<Vec<u32>>.deserialize".into(), "Arc<Vec<u32>>::deserialize differs from the input".into());
    }
    let a: Result<UniqueArc<(u8, String)>, VErr> = UniqueArc::deserialize(SeqDeserializer::new(vec![Val2::U(c.p(0)), Val2::S(s.clone())].into_iter()));
    match a {
        Ok(u) => {
            if u.0 != c.p(0) || u.1 != s {
                viol::report_sig(P, "D.de-value", "UniqueArc<(u8,String)>.deserialize".into(), "wrong tuple".into());
            }
        }
        Err(e) => viol::report_sig(P, "D.de-value", "UniqueArc<(u8,String)>.deserialize".into(), format!("failed: {}", e)),
    }
    // a too-short sequence: the error of the tuple's own deserialiser passes through
    let a: Result<Arc<(u8, String)>, VErr> = Arc::deserialize(SeqDeserializer::new(vec![Val2::U(1)].into_iter()));
    let v: Result<(u8, String), VErr> = <(u8, String)>::deserialize(SeqDeserializer::new(vec![Val2::U(1)].into_iter()));
    if a.is_ok() || a.err().map(|e| e.to_string()) != v.err().map(|e| e.to_string()) {
        viol::report_sig(P, "D.de-error", "Arc<(u8,String)>.deserialize:short-seq".into(), "error not passed through unchanged".into());
    }
    #[derive(Clone)]
    enum Val2 {
        U(u8),
        S(String),
    }
    impl<'de> IntoDeserializer<'de, VErr> for Val2 {
        type Deserializer = Val2De;
        fn into_deserializer(self) -> Val2De {
            Val2De(self)
        }
    }
    struct Val2De(Val2);
    impl<'de> Deserializer<'de> for Val2De {
        type Error = VErr;
        fn deserialize_any<V: Visitor<'de>>(self, v: V) -> Result<V::Value, VErr> {
            match self.0 {
                Val2::U(x) => v.visit_u8(x),
                Val2::S(s) => v.visit_string(s),
            }
        }
        serde::forward_to_deserialize_any! {
            bool i8 i16 i32 i64 i128 u8 u16 u32 u64 u128 f32 f64 char str string bytes byte_buf option unit unit_struct
            newtype_struct seq tuple tuple_struct map struct enum identifier ignored_any
        }
    }
}
