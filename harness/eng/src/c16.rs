//! C16: reference-count overflow ends the process. Each case runs in a child process:
//! create a handle, learn the counter's address from the shim (first atomic access),
//! preset it, call one clone entry point.

use std::panic::{catch_unwind, AssertUnwindSafe};
use std::sync::atomic::{AtomicUsize, Ordering};
use std::time::Duration;

use rt::case::{pick, ByteCase};
use rt::run::{CaseReport, Engine};
use rt::{child, sim, viol};
use triomphe::{Arc, ArcBorrow, ArcUnion, HeaderSlice, OffsetArc, ThinArc};

pub const FIXED: [usize; 10] = [
    1,
    2,
    1 << 31,
    1 << 32,
    isize::MAX as usize - 1,
    isize::MAX as usize,
    isize::MAX as usize + 1,
    isize::MAX as usize + 2,
    usize::MAX - 1,
    usize::MAX,
];

pub const ENTRIES: [&str; 26] = [
    "Arc<T>::clone",
    "Arc<[T]>::clone",
    "Arc<dyn>::clone",
    "ThinArc::clone",
    "OffsetArc::clone",
    "OffsetArc::clone_arc",
    "ArcBorrow::clone_arc",
    "ArcUnion(first)::clone",
    "ArcUnion(second)::clone",
    "clone inside ThinArc::with_arc",
    "clone inside OffsetArc::with_arc",
    "clone inside Arc::with_raw_offset_arc",
    "clone inside ArcBorrow::with_arc",
    "arc-swap RefCnt::inc",
    "Arc<HeaderSlice<H,[T]>>::clone",
    "Arc<str>::clone",
    "Arc<T>::clone_from",
    "Option<Arc<T>>::clone_from",
    "Vec<Arc<T>>::clone_from",
    "Arc<[T]>::clone_from",
    "ThinArc::clone_from",
    "OffsetArc::clone_from",
    "ArcUnion(first)::clone_from",
    "ArcUnion(second)::clone_from",
    "Arc<dyn>::clone_from",
    "arc-swap RefCnt::inc (ThinArc)",
];

trait Dy {
    fn v(&self) -> u32;
}
impl Dy for u32 {
    fn v(&self) -> u32 {
        *self
    }
}

fn learn(f: impl FnOnce() -> usize, heap: Option<usize>) -> usize {
    sim::clear_last_atomic_addr();
    let c = f();
    let addr = sim::last_atomic_addr();
    if addr == 0 || c != 1 {
        println!("SETUP-FAILED addr={:#x} count={}", addr, c);
        std::process::exit(4);
    }
    if let Some(h) = heap {
        if h != addr {
            println!("SETUP-FAILED counter at {:#x} but heap_ptr {:#x}", addr, h);
            std::process::exit(4);
        }
    }
    addr
}

fn preset(addr: usize, start: usize) {
    unsafe { (*(addr as *const AtomicUsize)).store(start, Ordering::SeqCst) }
}
fn current(addr: usize) -> usize {
    unsafe { (*(addr as *const AtomicUsize)).load(Ordering::SeqCst) }
}

/// `tv child c16 <entry> <start>`
pub fn child_main(entry: usize, start: usize) -> ! {
    use std::io::Write;
    sim::set_check_live(false);
    if std::env::var_os("TV_STDERR_FULL").is_some() {
        // a process whose stderr cannot be written to (disk full, closed pipe): anything the abort path prints
        // must not turn the abort into something else
        unsafe {
            let fd = libc::open(b"/dev/full\0".as_ptr() as *const libc::c_char, libc::O_WRONLY);
            if fd >= 0 {
                libc::dup2(fd, 2);
            }
        }
    }
    let addr;
    let r: Result<(), ()> = match entry {
        0 => {
            let a = std::mem::ManuallyDrop::new(Arc::new(7u64));
            addr = learn(|| Arc::count(&a), Some(a.heap_ptr() as usize));
            preset(addr, start);
            catch_unwind(AssertUnwindSafe(|| std::mem::forget(a.clone()))).map_err(|_| ())
        }
        1 => {
            let a: std::mem::ManuallyDrop<Arc<[u16]>> = std::mem::ManuallyDrop::new(Arc::from(vec![1u16, 2, 3]));
            addr = learn(|| Arc::count(&a), Some(a.heap_ptr() as usize));
            preset(addr, start);
            catch_unwind(AssertUnwindSafe(|| std::mem::forget(a.clone()))).map_err(|_| ())
        }
        2 => {
            let raw: *const u32 = Arc::into_raw(Arc::new(5u32));
            let a: std::mem::ManuallyDrop<Arc<dyn Dy>> = std::mem::ManuallyDrop::new(unsafe { Arc::from_raw(raw as *const dyn Dy) });
            addr = learn(|| Arc::count(&a), Some(a.heap_ptr() as usize));
            preset(addr, start);
            catch_unwind(AssertUnwindSafe(|| std::mem::forget(a.clone()))).map_err(|_| ())
        }
        3 => {
            let t = std::mem::ManuallyDrop::new(ThinArc::from_header_and_slice(9u8, &[1u32, 2]));
            addr = learn(|| ThinArc::strong_count(&t), Some(t.heap_ptr() as usize));
            preset(addr, start);
            catch_unwind(AssertUnwindSafe(|| std::mem::forget(t.clone()))).map_err(|_| ())
        }
        4 | 5 | 10 => {
            let o = std::mem::ManuallyDrop::new(Arc::into_raw_offset(Arc::new(3u64)));
            addr = learn(|| OffsetArc::strong_count(&o), None);
            preset(addr, start);
            catch_unwind(AssertUnwindSafe(|| match entry {
                4 => std::mem::forget(o.clone()),
                5 => std::mem::forget(o.clone_arc()),
                _ => std::mem::forget(o.with_arc(|a| a.clone())),
            }))
            .map_err(|_| ())
        }
        6 | 12 => {
            let a = std::mem::ManuallyDrop::new(Arc::new(3u64));
            let b: ArcBorrow<'_, u64> = a.borrow_arc();
            addr = learn(|| ArcBorrow::strong_count(&b), Some(a.heap_ptr() as usize));
            preset(addr, start);
            catch_unwind(AssertUnwindSafe(|| {
                if entry == 6 {
                    std::mem::forget(b.clone_arc())
                } else {
                    std::mem::forget(b.with_arc(|x| x.clone()))
                }
            }))
            .map_err(|_| ())
        }
        7 => {
            let u: std::mem::ManuallyDrop<ArcUnion<u64, u8>> = std::mem::ManuallyDrop::new(ArcUnion::from_first(Arc::new(1u64)));
            addr = learn(|| ArcUnion::strong_count(&u), None);
            preset(addr, start);
            catch_unwind(AssertUnwindSafe(|| std::mem::forget(u.clone()))).map_err(|_| ())
        }
        8 => {
            let u: std::mem::ManuallyDrop<ArcUnion<u64, u8>> = std::mem::ManuallyDrop::new(ArcUnion::from_second(Arc::new(1u8)));
            addr = learn(|| ArcUnion::strong_count(&u), None);
            preset(addr, start);
            catch_unwind(AssertUnwindSafe(|| std::mem::forget(u.clone()))).map_err(|_| ())
        }
        9 => {
            let t = std::mem::ManuallyDrop::new(ThinArc::from_header_and_slice(9u8, &[1u32, 2]));
            addr = learn(|| ThinArc::strong_count(&t), Some(t.heap_ptr() as usize));
            preset(addr, start);
            catch_unwind(AssertUnwindSafe(|| std::mem::forget(t.with_arc(|a| a.clone())))).map_err(|_| ())
        }
        11 => {
            let a = std::mem::ManuallyDrop::new(Arc::new(3u64));
            addr = learn(|| Arc::count(&a), Some(a.heap_ptr() as usize));
            preset(addr, start);
            catch_unwind(AssertUnwindSafe(|| std::mem::forget(a.with_raw_offset_arc(|o| o.clone())))).map_err(|_| ())
        }
        13 => {
            #[cfg(feature = "arc-swap")]
            {
                use arc_swap::RefCnt;
                let a = std::mem::ManuallyDrop::new(Arc::new(3u64));
                addr = learn(|| Arc::count(&a), Some(a.heap_ptr() as usize));
                preset(addr, start);
                catch_unwind(AssertUnwindSafe(|| {
                    let _ = <Arc<u64> as RefCnt>::inc(&*a);
                }))
                .map_err(|_| ())
            }
            #[cfg(not(feature = "arc-swap"))]
            {
                let a = std::mem::ManuallyDrop::new(Arc::new(3u64));
                addr = learn(|| Arc::count(&a), Some(a.heap_ptr() as usize));
                preset(addr, start);
                catch_unwind(AssertUnwindSafe(|| std::mem::forget(a.clone()))).map_err(|_| ())
            }
        }
        14 => {
            let a = std::mem::ManuallyDrop::new(Arc::from_header_and_slice(1u16, &[1u8, 2, 3]));
            addr = learn(|| Arc::count(&a), Some(a.heap_ptr() as usize));
            preset(addr, start);
            catch_unwind(AssertUnwindSafe(|| std::mem::forget(a.clone()))).map_err(|_| ())
        }
        16 | 17 | 18 => {
            let a = std::mem::ManuallyDrop::new(Arc::new(7u64));
            let mut d = std::mem::ManuallyDrop::new(Arc::new(8u64));
            addr = learn(|| Arc::count(&a), Some(a.heap_ptr() as usize));
            preset(addr, start);
            catch_unwind(AssertUnwindSafe(|| match entry {
                16 => Clone::clone_from(&mut *d, &*a),
                17 => {
                    let mut od = std::mem::ManuallyDrop::new(Some(unsafe { std::ptr::read(&*d) }));
                    let os = std::mem::ManuallyDrop::new(Some(unsafe { std::ptr::read(&*a) }));
                    Clone::clone_from(&mut *od, &*os);
                }
                _ => {
                    let mut vd = std::mem::ManuallyDrop::new(vec![unsafe { std::ptr::read(&*d) }]);
                    let vs = std::mem::ManuallyDrop::new(vec![unsafe { std::ptr::read(&*a) }]);
                    Clone::clone_from(&mut *vd, &*vs);
                }
            }))
            .map_err(|_| ())
        }
        19 => {
            let a: std::mem::ManuallyDrop<Arc<[u16]>> = std::mem::ManuallyDrop::new(Arc::from(vec![1u16, 2, 3]));
            let mut d: std::mem::ManuallyDrop<Arc<[u16]>> = std::mem::ManuallyDrop::new(Arc::from(vec![4u16]));
            addr = learn(|| Arc::count(&a), Some(a.heap_ptr() as usize));
            preset(addr, start);
            catch_unwind(AssertUnwindSafe(|| Clone::clone_from(&mut *d, &*a))).map_err(|_| ())
        }
        20 => {
            let t = std::mem::ManuallyDrop::new(ThinArc::from_header_and_slice(9u8, &[1u32, 2]));
            let mut d = std::mem::ManuallyDrop::new(ThinArc::from_header_and_slice(1u8, &[3u32]));
            addr = learn(|| ThinArc::strong_count(&t), Some(t.heap_ptr() as usize));
            preset(addr, start);
            catch_unwind(AssertUnwindSafe(|| Clone::clone_from(&mut *d, &*t))).map_err(|_| ())
        }
        21 => {
            let o = std::mem::ManuallyDrop::new(Arc::into_raw_offset(Arc::new(3u64)));
            let mut d = std::mem::ManuallyDrop::new(Arc::into_raw_offset(Arc::new(4u64)));
            addr = learn(|| OffsetArc::strong_count(&o), None);
            preset(addr, start);
            catch_unwind(AssertUnwindSafe(|| Clone::clone_from(&mut *d, &*o))).map_err(|_| ())
        }
        22 | 23 => {
            let u: std::mem::ManuallyDrop<ArcUnion<u64, u8>> =
                std::mem::ManuallyDrop::new(if entry == 22 { ArcUnion::from_first(Arc::new(1u64)) } else { ArcUnion::from_second(Arc::new(1u8)) });
            let mut d: std::mem::ManuallyDrop<ArcUnion<u64, u8>> =
                std::mem::ManuallyDrop::new(if start & 1 == 0 { ArcUnion::from_first(Arc::new(2u64)) } else { ArcUnion::from_second(Arc::new(2u8)) });
            addr = learn(|| ArcUnion::strong_count(&u), None);
            preset(addr, start);
            catch_unwind(AssertUnwindSafe(|| Clone::clone_from(&mut *d, &*u))).map_err(|_| ())
        }
        24 => {
            let raw: *const u32 = Arc::into_raw(Arc::new(5u32));
            let a: std::mem::ManuallyDrop<Arc<dyn Dy>> = std::mem::ManuallyDrop::new(unsafe { Arc::from_raw(raw as *const dyn Dy) });
            let raw2: *const u32 = Arc::into_raw(Arc::new(6u32));
            let mut d: std::mem::ManuallyDrop<Arc<dyn Dy>> = std::mem::ManuallyDrop::new(unsafe { Arc::from_raw(raw2 as *const dyn Dy) });
            addr = learn(|| Arc::count(&a), Some(a.heap_ptr() as usize));
            preset(addr, start);
            catch_unwind(AssertUnwindSafe(|| Clone::clone_from(&mut *d, &*a))).map_err(|_| ())
        }
        25 => {
            let t = std::mem::ManuallyDrop::new(ThinArc::from_header_and_slice(9u8, &[1u32, 2]));
            addr = learn(|| ThinArc::strong_count(&t), Some(t.heap_ptr() as usize));
            preset(addr, start);
            #[cfg(feature = "arc-swap")]
            {
                use arc_swap::RefCnt;
                catch_unwind(AssertUnwindSafe(|| {
                    let _ = <ThinArc<u8, u32> as RefCnt>::inc(&*t);
                }))
                .map_err(|_| ())
            }
            #[cfg(not(feature = "arc-swap"))]
            {
                catch_unwind(AssertUnwindSafe(|| std::mem::forget(t.clone()))).map_err(|_| ())
            }
        }
        _ => {
            let a: std::mem::ManuallyDrop<Arc<str>> = std::mem::ManuallyDrop::new(Arc::from("héllo"));
            addr = learn(|| Arc::count(&a), Some(a.heap_ptr() as usize));
            preset(addr, start);
            catch_unwind(AssertUnwindSafe(|| std::mem::forget(a.clone()))).map_err(|_| ())
        }
    };
    let _ = HeaderSlice { header: (), slice: () };
    match r {
        Ok(()) => {
            println!("AFTER count={}", current(addr));
            let _ = std::io::stdout().flush();
            unsafe { libc::_exit(0) }
        }
        Err(()) => {
            println!("CAUGHT count={}", current(addr));
            let _ = std::io::stdout().flush();
            unsafe { libc::_exit(3) }
        }
    }
}

pub struct C16Engine {
    pub fixed_grid: bool,
}

pub fn decode(c: &ByteCase) -> (usize, usize, &'static str) {
    let entry = pick(c.p(0), ENTRIES.len());
    let cls = pick(c.p(1), 14);
    let raw = u64::from_le_bytes([c.p(2), c.p(3), c.p(4), c.p(5), c.p(6), c.p(7), c.p(8), c.p(9)]) as usize;
    let (start, name) = if cls < 10 {
        (FIXED[cls], "fixed")
    } else if cls == 10 {
        ((isize::MAX as usize).wrapping_add(1 + (raw % 4096)), "just-above-limit")
    } else if cls == 11 {
        ((isize::MAX as usize) - 1 - (raw % 4096), "just-below-limit")
    } else if cls == 12 {
        (raw | (1 << 63), "random-above")
    } else {
        ((raw & (usize::MAX >> 1)).clamp(1, isize::MAX as usize - 1), "random-below")
    };
    (entry, start, name)
}

impl Engine for C16Engine {
    fn name(&self) -> String {
        if self.fixed_grid { "c16-children/grid".into() } else { "c16-children/random".into() }
    }
    fn params_len(&self) -> usize {
        10
    }
    fn ops_range(&self) -> (usize, usize) {
        (0, 0)
    }
    fn enum_len(&self) -> Option<u64> {
        if self.fixed_grid {
            Some((ENTRIES.len() * 10) as u64)
        } else {
            None
        }
    }
    fn enum_at(&self, i: u64) -> Option<ByteCase> {
        let (e, k) = (i as usize / 10, i as usize % 10);
        // inverse of pick(): smallest byte mapping to the index
        let pe = ((e * 256 + ENTRIES.len() - 1) / ENTRIES.len()) as u8;
        let pk = ((k * 256 + 13) / 14) as u8;
        Some(ByteCase { params: vec![pe, pk, 0, 0, 0, 0, 0, 0, 0, 0], ops: vec![] })
    }
    fn run(&self, c: &ByteCase, trace: bool) -> CaseReport {
        let _ = viol::take();
        let (entry, start, cls) = decode(c);
        // every other case runs with an unwritable stderr
        let full = (c.p(0) as usize + c.p(1) as usize + c.p(9) as usize) % 2 == 1;
        let envs: Vec<(&str, String)> = if full { vec![("TV_STDERR_FULL", "1".to_string())] } else { vec![] };
        let o = child::run_self(&["child".into(), "c16".into(), entry.to_string(), start.to_string()], &envs, Duration::from_secs(20));
        let limit = isize::MAX as usize;
        let what = format!("{} with the count preset to {:#x}{}", ENTRIES[entry], start, if full { " (stderr is /dev/full)" } else { "" });
        let after = o.stdout.lines().find(|l| l.starts_with("AFTER")).map(|l| l.to_string());
        let caught = o.stdout.contains("CAUGHT");
        let aborted = matches!(o.signal, Some(6) | Some(4));
        let sig = format!("{}:{}", ENTRIES[entry], if start > limit { "above-limit" } else if start == limit { "at-limit" } else { "below-limit" });
        let mut bad: Option<String> = None;
        if o.timed_out || o.stdout.contains("SETUP-FAILED") {
            viol::report_sig(&["C16"], "O.setup", format!("setup:{}", ENTRIES[entry]), format!("{}: child setup failed / timed out: {}", what, o.stdout.trim()));
        } else if start < limit {
            let want = format!("AFTER count={}", start + 1);
            if o.code != Some(0) || after.as_deref() != Some(want.as_str()) {
                bad = Some(format!("{}: expected a successful clone adding exactly one ({}), got exit {:?} signal {:?} stdout {:?}", what, want, o.code, o.signal, o.stdout.trim()));
            }
        } else if start > limit {
            if !aborted || after.is_some() || caught {
                bad = Some(format!(
                    "{}: expected the process to abort before another handle is produced; got exit {:?} signal {:?} stdout {:?}{}",
                    what,
                    o.code,
                    o.signal,
                    o.stdout.trim(),
                    if caught { " (the failure was a catchable panic)" } else { "" }
                ));
            }
        } else {
            // exactly at the limit: either a clean success or a clean abort
            let want = format!("AFTER count={}", start.wrapping_add(1));
            let clean_ok = o.code == Some(0) && after.as_deref() == Some(want.as_str());
            let clean_abort = aborted && after.is_none() && !caught;
            if !clean_ok && !clean_abort {
                bad = Some(format!("{}: neither a clean success nor a clean abort: exit {:?} signal {:?} stdout {:?}", what, o.code, o.signal, o.stdout.trim()));
            }
        }
        if let Some(m) = bad {
            viol::report_sig(&["C16"], "O.overflow", sig, m);
        }
        let nontrivial = start > limit || start == limit - 1;
        let mut labels = vec![cls];
        if start > limit {
            labels.push("start>isize::MAX");
        }
        if start == limit {
            labels.push("start==isize::MAX");
        }
        let trace_out = if trace { vec![format!("{} -> exit {:?} signal {:?} stdout {:?} stderr {:?}", what, o.code, o.signal, o.stdout.trim(), o.stderr.lines().last().unwrap_or(""))] } else { vec![] };
        CaseReport { viols: viol::take(), nontrivial, labels, trace: trace_out }
    }
}


// ------------------------------------------------------------------------------------
// the same grid on a 32-bit usize: executed by Miri for i686 (harness/m32), the only 32-bit execution
// vehicle in this sandbox. The interpreter is not the oracle; termination and output are, as above.
// ------------------------------------------------------------------------------------

pub const FIXED32: [u64; 10] = [1, 2, 1 << 20, 1 << 30, (i32::MAX - 1) as u64, i32::MAX as u64, i32::MAX as u64 + 1, i32::MAX as u64 + 2, u32::MAX as u64 - 1, u32::MAX as u64];

pub struct C16M32Engine {
    pub fixed_grid: bool,
}

/// Some(reason) if `cargo +nightly miri` cannot run the i686 program here (then the stage is skipped)
pub fn m32_unavailable() -> Option<String> {
    use std::sync::OnceLock;
    static R: OnceLock<Option<String>> = OnceLock::new();
    R.get_or_init(|| {
        let o = m32_run(0, 1);
        if o.stdout.contains("AFTER count=2") {
            None
        } else {
            Some(format!("exit {:?}: {}", o.code, o.stderr.lines().filter(|l| l.starts_with("error")).next().unwrap_or("no output")))
        }
    })
    .clone()
}

fn m32_run(entry: usize, start: u64) -> child::Outcome {
    m32_run_args(&[entry.to_string(), start.to_string()])
}

pub fn m32_run_args(prog_args: &[String]) -> child::Outcome {
    let dir = rt::run::verif_root().join("harness/m32");
    child::run(
        "cargo",
        &vec![
            "+nightly".to_string(),
            "miri".into(),
            "run".into(),
            "--offline".into(),
            "-q".into(),
            "--target".into(),
            "i686-unknown-linux-gnu".into(),
            "--manifest-path".into(),
            dir.join("Cargo.toml").to_string_lossy().into_owned(),
            "--target-dir".into(),
            rt::run::verif_root().join("harness/target/m32").to_string_lossy().into_owned(),
            "--".into(),
        ]
        .into_iter()
        .chain(prog_args.iter().cloned())
        .collect::<Vec<String>>(),
        &[("MIRIFLAGS", "-Zmiri-ignore-leaks -Zmiri-disable-stacked-borrows".to_string()), ("RUSTFLAGS", String::new())],
        Duration::from_secs(600),
    )
}

impl Engine for C16M32Engine {
    fn name(&self) -> String {
        if self.fixed_grid { "c16-miri-i686/grid".into() } else { "c16-miri-i686/random".into() }
    }
    fn params_len(&self) -> usize {
        6
    }
    fn ops_range(&self) -> (usize, usize) {
        (0, 0)
    }
    fn enum_len(&self) -> Option<u64> {
        if self.fixed_grid {
            Some((ENTRIES.len() * 10) as u64)
        } else {
            None
        }
    }
    fn enum_at(&self, i: u64) -> Option<ByteCase> {
        let (e, k) = (i as usize / 10, i as usize % 10);
        let pe = ((e * 256 + ENTRIES.len() - 1) / ENTRIES.len()) as u8;
        let pk = ((k * 256 + 13) / 14) as u8;
        Some(ByteCase { params: vec![pe, pk, 0, 0, 0, 0], ops: vec![] })
    }
    fn run(&self, c: &ByteCase, trace: bool) -> CaseReport {
        let _ = viol::take();
        if let Some(why) = m32_unavailable() {
            // not a verdict: the stage cannot run here
            return CaseReport { viols: vec![], nontrivial: false, labels: vec!["miri-i686-unavailable"], trace: if trace { vec![format!("skipped: {}", why)] } else { vec![] } };
        }
        let entry = pick(c.p(0), ENTRIES.len());
        let cls = pick(c.p(1), 14);
        let raw = u32::from_le_bytes([c.p(2), c.p(3), c.p(4), c.p(5)]) as u64;
        let limit = i32::MAX as u64;
        let (start, name): (u64, &'static str) = if cls < 10 {
            (FIXED32[cls], "fixed")
        } else if cls == 10 {
            (limit + 1 + raw % 4096, "just-above-limit")
        } else if cls == 11 {
            (limit - 1 - raw % 4096, "just-below-limit")
        } else if cls == 12 {
            (raw | (1 << 31), "random-above")
        } else {
            ((raw & (u32::MAX as u64 >> 1)).clamp(1, limit - 1), "random-below")
        };
        let mut o = m32_run(entry, start);
        let silent = |o: &child::Outcome| o.timed_out || (!o.stderr.contains("the program aborted execution") && !o.stdout.contains("AFTER") && !o.stdout.contains("CAUGHT") && !o.stdout.contains("SETUP-FAILED") && !o.stderr.contains("Undefined Behavior"));
        if silent(&o) {
            // the interpreter (or cargo in front of it) produced nothing: an infrastructure hiccup under load, try again
            o = m32_run(entry, start);
        }
        if silent(&o) {
            // still nothing: not a verdict about the crate
            return CaseReport { viols: vec![], nontrivial: false, labels: vec!["miri-i686-run-produced-nothing (inconclusive)"], trace: if trace { vec![format!("no output from cargo miri run: exit {:?} {}", o.code, o.stderr.lines().last().unwrap_or(""))] } else { vec![] } };
        }
        let what = format!("[32-bit usize, Miri i686] {} with the count preset to {:#x}", ENTRIES[entry], start);
        let after = o.stdout.lines().find(|l| l.starts_with("AFTER")).map(|l| l.to_string());
        let caught = o.stdout.contains("CAUGHT");
        let aborted = o.stderr.contains("the program aborted execution");
        let sig = format!("m32:{}:{}", ENTRIES[entry], if start > limit { "above-limit" } else if start == limit { "at-limit" } else { "below-limit" });
        let mut bad: Option<String> = None;
        if o.timed_out || o.stdout.contains("SETUP-FAILED") || o.stderr.contains("Undefined Behavior") || (!aborted && after.is_none() && !caught) {
            viol::report_sig(&["C16"], "O.setup", format!("m32-setup:{}", ENTRIES[entry]), format!("{}: the interpreter run failed: {} {}", what, o.stdout.trim(), o.stderr.lines().filter(|l| l.starts_with("error")).next().unwrap_or("")));
        } else if start < limit {
            let want = format!("AFTER count={}", start + 1);
            if aborted || after.as_deref() != Some(want.as_str()) {
                bad = Some(format!("{}: expected a successful clone adding exactly one ({}), got aborted={} stdout {:?}", what, want, aborted, o.stdout.trim()));
            }
        } else if start > limit {
            if !aborted || after.is_some() || caught {
                bad = Some(format!("{}: expected the process to abort before another handle is produced; got aborted={} stdout {:?}{}", what, aborted, o.stdout.trim(), if caught { " (the failure was a catchable panic)" } else { "" }));
            }
        } else {
            let want = format!("AFTER count={}", (start + 1) & 0xffff_ffff);
            let clean_ok = !aborted && after.as_deref() == Some(want.as_str());
            let clean_abort = aborted && after.is_none() && !caught;
            if !clean_ok && !clean_abort {
                bad = Some(format!("{}: neither a clean success nor a clean abort: aborted={} stdout {:?}", what, aborted, o.stdout.trim()));
            }
        }
        if let Some(m) = bad {
            viol::report_sig(&["C16"], "O.overflow", sig, m);
        }
        let nontrivial = start > limit || start == limit - 1;
        let mut labels = vec![name, "32-bit"];
        if start > limit {
            labels.push("start>i32::MAX (32-bit)");
        }
        let trace_out = if trace { vec![format!("{} -> aborted={} stdout {:?}", what, aborted, o.stdout.trim())] } else { vec![] };
        CaseReport { viols: viol::take(), nontrivial, labels, trace: trace_out }
    }
}


// ------------------------------------------------------------------------------------
// the guard under concurrency: n threads clone ONE allocation whose count was preset near the limit, under the
// harness-owned scheduler (a child process per schedule: an abort ends the process). With n clones starting
// from s, some clone observes a count above the limit iff s + n - 1 > isize::MAX: then the process must abort
// (a guard that checks BEFORE it increments lets several threads through at once); otherwise all succeed.
// ------------------------------------------------------------------------------------

pub const RACE_ENTRIES: [&str; 6] = ["Arc<T>::clone", "ThinArc::clone", "OffsetArc::clone", "ArcBorrow::clone_arc", "ArcUnion(second)::clone", "Arc<T>::clone_from"];

struct SendPtr<T>(T);
unsafe impl<T> Send for SendPtr<T> {}

/// `tv child c16race <entry> <start> <nthreads> <sched hex>`
pub fn race_child_main(entry: usize, start: usize, nthreads: usize, sched: Vec<u8>) -> ! {
    use std::io::Write;
    use std::mem::ManuallyDrop;
    sim::set_check_live(false);
    // handles are leaked on purpose (ManuallyDrop / forget): only increments are under test
    let a = ManuallyDrop::new(Arc::new(7u64));
    let t = ManuallyDrop::new(ThinArc::from_header_and_slice(9u8, &[1u32, 2]));
    let addr = match entry {
        1 => learn(|| ThinArc::strong_count(&t), Some(t.heap_ptr() as usize)),
        _ => learn(|| Arc::count(&a), Some(a.heap_ptr() as usize)),
    };
    // bitwise aliases of `a` in other handle kinds (never dropped: they share a's single count)
    let o = ManuallyDrop::new(Arc::into_raw_offset(unsafe { std::ptr::read(&*a) }));
    let u: ManuallyDrop<ArcUnion<u8, u64>> = ManuallyDrop::new(ArcUnion::from_second(unsafe { std::ptr::read(&*a) }));
    preset(addr, start);
    let (n_stale, n_sched) = (sched.len() / 2, sched.len() - sched.len() / 2);
    sim::begin(sim::Config { sched: sched[..n_sched].to_vec(), stale: sched[n_sched..n_sched + n_stale].to_vec(), trace: false });
    let mut bodies: Vec<Box<dyn FnOnce() + Send>> = vec![];
    for _ in 0..nthreads {
        let pa = SendPtr(&*a as *const Arc<u64>);
        let pt = SendPtr(&*t as *const ThinArc<u8, u32>);
        let po = SendPtr(&*o as *const OffsetArc<u64>);
        let pu = SendPtr(&*u as *const ArcUnion<u8, u64>);
        bodies.push(Box::new(move || {
            let (pa, pt, po, pu) = (pa, pt, po, pu);
            unsafe {
                match entry {
                    0 => std::mem::forget((*pa.0).clone()),
                    1 => std::mem::forget((*pt.0).clone()),
                    2 => std::mem::forget((*po.0).clone()),
                    3 => std::mem::forget((*pa.0).borrow_arc().clone_arc()),
                    4 => std::mem::forget((*pu.0).clone()),
                    _ => {
                        let mut d = ManuallyDrop::new(Arc::new(1u64));
                        Clone::clone_from(&mut *d, &*pa.0);
                    }
                }
            }
        }));
    }
    sim::run_threads(bodies);
    let _ = sim::end();
    println!("ALL-RETURNED count={}", current(addr));
    let _ = std::io::stdout().flush();
    unsafe { libc::_exit(0) }
}

pub struct C16RaceEngine;

impl Engine for C16RaceEngine {
    fn name(&self) -> String {
        "c16-race-children".into()
    }
    fn params_len(&self) -> usize {
        20
    }
    fn ops_range(&self) -> (usize, usize) {
        (0, 0)
    }
    fn run(&self, c: &ByteCase, trace: bool) -> CaseReport {
        let _ = viol::take();
        let entry = pick(c.p(0), RACE_ENTRIES.len());
        let nthreads = 2 + pick(c.p(1), 2);
        let limit = isize::MAX as usize;
        // starts around the limit: limit-2 .. limit+1
        let start = limit - 2 + pick(c.p(2), 4);
        let sched: String = c.params[3..].iter().map(|b| format!("{:02x}", b)).collect();
        let o = child::run_self(&["child".into(), "c16race".into(), entry.to_string(), start.to_string(), nthreads.to_string(), sched], &[], Duration::from_secs(30));
        let what = format!("{} by {} threads at once with the count preset to isize::MAX{:+}", RACE_ENTRIES[entry], nthreads, start as i128 - limit as i128);
        let all = o.stdout.lines().find(|l| l.starts_with("ALL-RETURNED")).map(|l| l.to_string());
        let aborted = matches!(o.signal, Some(6) | Some(4));
        let must_abort = start + nthreads - 1 > limit;
        if o.timed_out || o.stdout.contains("SETUP-FAILED") {
            viol::report_sig(&["C16"], "O.setup", format!("race-setup:{}", RACE_ENTRIES[entry]), format!("{}: child setup failed / timed out: {}", what, o.stdout.trim()));
        } else if must_abort {
            if !aborted || all.is_some() {
                viol::report_sig(&["C16"], "O.overflow-race", format!("race:{}", RACE_ENTRIES[entry]), format!("{}: one of the clones happens with the count already above the limit, yet every clone returned a handle ({}); exit {:?} signal {:?}", what, all.unwrap_or_default(), o.code, o.signal));
            }
        } else {
            let want = format!("ALL-RETURNED count={}", start + nthreads);
            if aborted || all.as_deref() != Some(want.as_str()) {
                viol::report_sig(&["C16"], "O.overflow-race", format!("race-below:{}", RACE_ENTRIES[entry]), format!("{}: every clone happens at or below the limit: expected {}, got exit {:?} signal {:?} stdout {:?}", what, want, o.code, o.signal, o.stdout.trim()));
            }
        }
        let labels: Vec<&'static str> = vec![if must_abort { "race: must abort" } else { "race: all clones legal" }];
        let tr = if trace { vec![format!("{} -> exit {:?} signal {:?} stdout {:?}", what, o.code, o.signal, o.stdout.trim())] } else { vec![] };
        CaseReport { viols: viol::take(), nontrivial: must_abort, labels, trace: tr }
    }
}


// ------------------------------------------------------------------------------------
// C11 on a 32-bit usize: the raw-pointer round trips of harness/m32 (`rt <shape> <path> <seed>`) over 12 payload
// shapes (alignment 1..64, zero-sized, sizes that are not multiples of the word) x 8 paths
// ------------------------------------------------------------------------------------

pub struct C11M32Engine;

pub const M32_SHAPES: [&str; 12] = ["align 1 size 1", "align 1 size 3", "align 2 size 6", "align 4 size 4", "align 4 size 12", "align 8 size 8", "align 8 size 24", "align 16 size 16", "align 64 size 64", "zero-sized align 1", "zero-sized align 8", "zero-sized align 64"];
pub const M32_PATHS: [&str; 8] = ["into_raw/from_raw", "into_raw_offset/from_raw_offset + OffsetArc clone/clone_arc", "ArcBorrow::from_ptr(as_ptr) clone_arc/with_arc", "ArcUnion second + first", "dyn cast round trip", "with_raw_offset_arc", "Arc<[T]> into_raw/from_raw_slice (also empty)", "ThinArc into_raw/from_raw/from_thin"];

impl Engine for C11M32Engine {
    fn name(&self) -> String {
        "c11-miri-i686/grid".into()
    }
    fn params_len(&self) -> usize {
        3
    }
    fn ops_range(&self) -> (usize, usize) {
        (0, 0)
    }
    fn enum_len(&self) -> Option<u64> {
        Some((M32_SHAPES.len() * M32_PATHS.len()) as u64)
    }
    fn enum_at(&self, i: u64) -> Option<ByteCase> {
        Some(ByteCase { params: vec![(i as usize / M32_PATHS.len()) as u8, (i as usize % M32_PATHS.len()) as u8, (i * 37 % 251) as u8], ops: vec![] })
    }
    fn run(&self, c: &ByteCase, trace: bool) -> CaseReport {
        let _ = viol::take();
        if let Some(why) = m32_unavailable() {
            return CaseReport { viols: vec![], nontrivial: false, labels: vec!["miri-i686-unavailable"], trace: if trace { vec![format!("skipped: {}", why)] } else { vec![] } };
        }
        let (shape, path, seed) = (c.p(0) as usize % M32_SHAPES.len(), c.p(1) as usize % M32_PATHS.len(), c.p(2));
        let mut o = m32_run_args(&["rt".to_string(), shape.to_string(), path.to_string(), seed.to_string()]);
        let silent = |o: &child::Outcome| o.timed_out || (!o.stdout.contains("OK") && !o.stdout.contains("BAD") && !o.stderr.contains("Undefined Behavior") && !o.stderr.contains("panicked") && !o.stderr.contains("aborted execution"));
        if silent(&o) {
            o = m32_run_args(&["rt".to_string(), shape.to_string(), path.to_string(), seed.to_string()]);
        }
        if silent(&o) {
            return CaseReport { viols: vec![], nontrivial: false, labels: vec!["miri-i686-run-produced-nothing (inconclusive)"], trace: vec![] };
        }
        let what = format!("[32-bit usize, Miri i686] payload {} through {}", M32_SHAPES[shape], M32_PATHS[path]);
        let ok = o.stdout.lines().any(|l| l.trim() == "OK") && !o.stderr.contains("Undefined Behavior");
        if !ok {
            let detail = o.stdout.lines().find(|l| l.starts_with("BAD")).map(|l| l.to_string()).or_else(|| o.stderr.lines().find(|l| l.starts_with("error") || l.contains("panicked")).map(|l| l.to_string())).unwrap_or_else(|| format!("exit {:?}", o.code));
            viol::report_sig(&["C11", "C05", "C04", "C12"], "P.m32-roundtrip", format!("m32:{}:{}", M32_SHAPES[shape], M32_PATHS[path]), format!("{}: {}", what, detail));
        }
        CaseReport { viols: viol::take(), nontrivial: shape >= 5 || shape == 1 || shape == 4, labels: vec!["32-bit"], trace: if trace { vec![format!("{} -> {}", what, if ok { "OK" } else { "FAILED" })] } else { vec![] } }
    }
}


// ------------------------------------------------------------------------------------
// C05 on a 32-bit usize: slice lengths whose byte size exceeds the address space must be refused (a refusal
// panic or the allocation-error abort), never answered with a handle over a short block
// ------------------------------------------------------------------------------------

pub struct C05M32Engine;

pub const M32_OVF_CTORS: [(&str, u64); 4] = [("Arc::<[MaybeUninit<u32>]>::new_uninit_slice", 4), ("Arc::<[MaybeUninit<u64>]>::new_uninit_slice", 8), ("UniqueArc::<[MaybeUninit<u16>]>::new_uninit_slice", 2), ("UniqueArc::from_header_and_uninit_slice::<u64,u32>", 4)];

impl Engine for C05M32Engine {
    fn name(&self) -> String {
        "c05-miri-i686/overflow".into()
    }
    fn params_len(&self) -> usize {
        6
    }
    fn ops_range(&self) -> (usize, usize) {
        (0, 0)
    }
    fn run(&self, c: &ByteCase, trace: bool) -> CaseReport {
        let _ = viol::take();
        if let Some(why) = m32_unavailable() {
            return CaseReport { viols: vec![], nontrivial: false, labels: vec!["miri-i686-unavailable"], trace: if trace { vec![format!("skipped: {}", why)] } else { vec![] } };
        }
        let ctor = pick(c.p(0), M32_OVF_CTORS.len());
        let size = M32_OVF_CTORS[ctor].1;
        let raw = u32::from_le_bytes([c.p(2), c.p(3), c.p(4), c.p(5)]) as u64;
        // lengths whose byte size is >= 2^32 (also just above, and the extremes)
        let min_len = (1u64 << 32) / size;
        let len = match pick(c.p(1), 6) {
            0 => min_len,
            1 => min_len + 1 + raw % 16,
            2 => u32::MAX as u64,
            3 => u32::MAX as u64 - raw % 64,
            4 => (1u64 << 31) + raw % 1024,
            _ => min_len + raw % (u32::MAX as u64 - min_len),
        }
        .min(u32::MAX as u64);
        let mut o = m32_run_args(&["ovf".to_string(), ctor.to_string(), len.to_string()]);
        let silent = |o: &child::Outcome| o.timed_out || (!o.stdout.contains("REFUSED") && !o.stdout.contains("RETURNED") && !o.stderr.contains("aborted execution") && !o.stderr.contains("Undefined Behavior") && !o.stderr.contains("memory allocation"));
        if silent(&o) {
            o = m32_run_args(&["ovf".to_string(), ctor.to_string(), len.to_string()]);
        }
        if silent(&o) {
            return CaseReport { viols: vec![], nontrivial: false, labels: vec!["miri-i686-run-produced-nothing (inconclusive)"], trace: vec![] };
        }
        let what = format!("[32-bit usize, Miri i686] {} with length {:#x} ({} bytes each: {:#x} bytes)", M32_OVF_CTORS[ctor].0, len, size, len * size);
        if o.stdout.contains("RETURNED") || o.stderr.contains("Undefined Behavior") {
            viol::report_sig(&["C05"], "F.m32-overflow", format!("m32-ovf:{}", M32_OVF_CTORS[ctor].0), format!("{}: the request does not fit a 32-bit address space and must be refused; got {} {}", what, o.stdout.trim(), o.stderr.lines().find(|l| l.contains("Undefined Behavior")).unwrap_or("")));
        }
        CaseReport { viols: viol::take(), nontrivial: true, labels: vec!["32-bit", "overflow-adjacent length"], trace: if trace { vec![format!("{} -> {}", what, o.stdout.trim())] } else { vec![] } }
    }
}
