//! C06 (constructors deliver exactly the given contents and move each element once) and
//! C07 (panicking or lying callbacks, allocation failure).

use std::collections::VecDeque;
use std::marker::PhantomData;
use std::panic::{catch_unwind, AssertUnwindSafe};
use std::time::Duration;

use rt::alloc::{self, track, Block};
use rt::case::{pick, ByteCase};
use rt::run::{CaseReport, Engine};
use rt::tok::{self, Payload, State, Tok1, Tok16, Tok32, Tok4, Tok8, Tok8b, TokZ};
use rt::{child, viol};
use triomphe::{Arc, ArcUnion, HeaderSlice, HeaderWithLength, OffsetArc, ThinArc, UniqueArc};

const P6: &[&str] = &["C06"];
const P7: &[&str] = &["C07"];

pub trait TokP: Payload + Send + Sync + PartialEq + PartialOrd + std::hash::Hash + std::fmt::Debug + Default {}
impl<T: Payload + Send + Sync + PartialEq + PartialOrd + std::hash::Hash + std::fmt::Debug + Default> TokP for T {}

/// boundary-biased lengths
pub const LENS: [usize; 46] = [0, 1, 2, 3, 4, 5, 7, 8, 9, 15, 16, 17, 31, 32, 33, 63, 64, 65, 127, 128, 129, 255, 256, 257, 300, 511, 512, 513, 1023, 1024, 1025, 2047, 2048, 2049, 2730, 2731, 4095, 4096, 4097, 5461, 8191, 8192, 8193, 16384, 65536, 131072];

/// A scriptable iterator: honest or lying `len()` / `size_hint()`, every callback is a fault point.
pub struct GenIter<T> {
    pub items: VecDeque<T>,
    /// 0 exact, 1 lower<upper, 2 (0,None)
    pub hint_mode: u8,
    /// answers of successive len()/size_hint() calls as offsets to the true remaining length (last repeats)
    pub lies: Vec<i64>,
    pub asks: usize,
    pub yielded: usize,
    /// a non-fused iterator: after the first batch is exhausted it answers None ONCE, then goes on with this
    /// second batch (a queue drain, a batch reader). len()/size_hint() describe the current batch.
    pub second: VecDeque<T>,
    pub gave_none: bool,
    /// the iterator's own destructor panics (after the constructor has finished with it)
    pub drop_panic: bool,
}

impl<T> Drop for GenIter<T> {
    fn drop(&mut self) {
        if self.drop_panic && !std::thread::panicking() {
            self.drop_panic = false;
            // what is still inside goes first (the fields are dropped after this body anyway)
            std::panic::panic_any(tok::Injected);
        }
    }
}

impl<T> GenIter<T> {
    pub fn honest(items: Vec<T>, hint_mode: u8) -> Self {
        GenIter { items: items.into(), hint_mode, lies: vec![0], asks: 0, yielded: 0, second: VecDeque::new(), gave_none: false, drop_panic: false }
    }
    pub fn honest_nonfused(items: Vec<T>, second: Vec<T>, hint_mode: u8) -> Self {
        GenIter { items: items.into(), hint_mode, lies: vec![0], asks: 0, yielded: 0, second: second.into(), gave_none: false, drop_panic: false }
    }
    /// the answer to the next len()/size_hint() question (the schedule advances with every question)
    fn reported(&self) -> usize {
        LEN_ASKS.with(|c| {
            let k = c.get();
            c.set(k + 1);
            let off = *self.lies.get(k).or(self.lies.last()).unwrap_or(&0);
            (self.items.len() as i64 + off).max(0) as usize
        })
    }
}
impl<T> Iterator for GenIter<T> {
    type Item = T;
    fn next(&mut self) -> Option<T> {
        tok::callback_point("next");
        if self.items.is_empty() && !self.second.is_empty() {
            if !self.gave_none {
                self.gave_none = true;
                return None;
            }
            return self.second.pop_front();
        }
        let x = self.items.pop_front();
        if x.is_some() {
            self.yielded += 1;
            YIELDED.with(|c| c.set(c.get() + 1));
        }
        x
    }
    fn size_hint(&self) -> (usize, Option<usize>) {
        tok::callback_point("size_hint");
        let n = self.reported();
        match self.hint_mode {
            0 => (n, Some(n)),
            1 => (n / 2, Some(n + 3)),
            // honest but loose upper bounds (filter / take_while over a huge range report such hints)
            3 => (n / 2, Some(usize::MAX)),
            4 => (0, Some(n * 64 + 1000)),
            _ => (0, None),
        }
    }
}
impl<T> ExactSizeIterator for GenIter<T> {
    fn len(&self) -> usize {
        tok::callback_point("len");
        self.reported()
    }
}
thread_local! {
    static LEN_ASKS: std::cell::Cell<usize> = const { std::cell::Cell::new(0) };
    /// items handed out by GenIter::next since the last reset (the iterator itself is consumed by the library)
    static YIELDED: std::cell::Cell<usize> = const { std::cell::Cell::new(0) };
}
fn reset_len_asks() {
    LEN_ASKS.with(|c| c.set(0));
    YIELDED.with(|c| c.set(0));
}
fn yielded() -> usize {
    YIELDED.with(|c| c.get())
}

macro_rules! lib {
    ($e:expr) => {
        track(|| $e).0
    };
}

fn toks<T: TokP>(n: usize, base: u64) -> (Vec<T>, Vec<u32>) {
    let v: Vec<T> = (0..n).map(|i| T::make(base + i as u64)).collect();
    let ids = v.iter().map(|t| t.peekp().id).collect();
    (v, ids)
}

fn state(id: u32) -> Option<(State, u32)> {
    tok::info(id).map(|t| (t.state, t.drops))
}

// ------------------------------------------------------------------------------------
// C06
// ------------------------------------------------------------------------------------
pub struct CtorEngine<Hd: TokP, El: TokP> {
    _p: PhantomData<fn() -> (Hd, El)>,
}
impl<Hd: TokP, El: TokP> CtorEngine<Hd, El> {
    pub fn new() -> Self {
        CtorEngine { _p: PhantomData }
    }
}

pub const CTORS: [&str; 14] = [
    "Arc<[T]>::from(Vec<T>)",
    "collect::<Arc<[T]>>() from vec::IntoIter (exact)",
    "collect::<Arc<[T]>>() hint lower<upper",
    "collect::<Arc<[T]>>() hint (0,None)",
    "collect::<UniqueArc<[T]>>()",
    "Arc::from_header_and_iter",
    "Arc::from_header_and_vec",
    "ThinArc::from_header_and_iter",
    "Arc<HeaderSlice<(),[T]>> <-> Arc<[T]> erasure",
    "Arc::from(Box<T>)",
    "collect::<Arc<[T]>>() from a custom exact-hint iterator",
    "Arc::new / From<T> / Default",
    "UniqueArc::new + into_inner",
    "Arc::from_header_and_iter(HeaderWithLength) + into_thin",
];

enum Built<Hd: TokP, El: TokP> {
    Slice(Arc<[El]>),
    USlice(UniqueArc<[El]>),
    Hs(Arc<HeaderSlice<Hd, [El]>>),
    Thin(ThinArc<Hd, El>),
    Sized(Arc<El>),
}

impl<Hd: TokP, El: TokP> Built<Hd, El> {
    fn read(&self) -> (Option<rt::tok::Peek>, Vec<rt::tok::Peek>, Option<usize>) {
        match self {
            Built::Slice(a) => (None, a.iter().map(|e| e.peekp()).collect(), None),
            Built::USlice(a) => (None, a.iter().map(|e| e.peekp()).collect(), None),
            Built::Hs(a) => (Some(a.header.peekp()), a.slice.iter().map(|e| e.peekp()).collect(), None),
            Built::Thin(a) => (Some(a.header.header.peekp()), a.slice.iter().map(|e| e.peekp()).collect(), Some(a.header.length)),
            Built::Sized(a) => (None, vec![a.peekp()], None),
        }
    }
    fn count(&self) -> Option<usize> {
        match self {
            Built::Slice(a) => Some(Arc::count(a)),
            Built::USlice(_) => None,
            Built::Hs(a) => Some(Arc::count(a)),
            Built::Thin(a) => Some(ThinArc::strong_count(a)),
            Built::Sized(a) => Some(Arc::count(a)),
        }
    }
}

impl<Hd: TokP, El: TokP> Engine for CtorEngine<Hd, El> {
    fn name(&self) -> String {
        format!("ctor<{},{}>", Hd::tyname(), El::tyname())
    }
    fn params_len(&self) -> usize {
        8
    }
    fn ops_range(&self) -> (usize, usize) {
        (0, 0)
    }
    fn run(&self, c: &ByteCase, trace: bool) -> CaseReport {
        let _ = alloc::case_end();
        tok::reset();
        reset_len_asks();
        let _ = viol::take();
        let ctor = pick(c.p(0), CTORS.len());
        // the table is boundary-biased; the six largest entries (>= 8191) are drawn rarely
        let len = if ctor == 9 || ctor == 11 || ctor == 12 {
            1
        } else if c.p(1) >= 250 {
            LENS[40 + (c.p(1) as usize - 250) % 6]
        } else {
            LENS[pick(c.p(1), 40) .min(39)]
        };
        // spare capacity: small, about the length, or more than twice the length
        let spare = match c.p(2) % 4 { 0 => 0, 1 => pick(c.p(2), 20), 2 => len + pick(c.p(2), 9), _ => 2 * len + 1 + pick(c.p(2), 40) };
        let what = format!("{} with {} elements of {} (spare capacity {}, header {})", CTORS[ctor], len, El::tyname(), spare, Hd::tyname());
        rt::run::trace_stream(&what);
        let (items, ids) = toks::<El>(len, 1000);
        let (hdr, hid) = {
            let h = Hd::make(7);
            let id = h.peekp().id;
            (h, id)
        };
        let mut uses_header = false;
        // one iterator-driven case in four feeds an honest NON-FUSED iterator: exact len for the first batch,
        // None once, then a second batch the constructor has no business with
        let nonfused = c.p(5) & 3 == 3 && matches!(ctor, 2 | 3 | 4 | 5 | 7 | 10 | 13) && !El::ZST;
        let (second, second_ids): (Vec<El>, Vec<u32>) = if nonfused {
            let v: Vec<El> = (0..2).map(|i| El::make(900_000 + i)).collect();
            let ids = v.iter().map(|e| e.peekp().id).collect();
            (v, ids)
        } else {
            (vec![], vec![])
        };
        let mk = |items: Vec<El>, second: Vec<El>, mode: u8| if nonfused { GenIter::honest_nonfused(items, second, mode) } else { GenIter::honest(items, mode) };
        let z_before = El::live_now();
        // one case in four (never when a refusal panic is legitimate): the constructor is called from a destructor
        // that runs while the thread is ALREADY unwinding from an unrelated panic (std::thread::panicking() is true
        // inside): the handle it returns must be as good as any other
        let in_unwind = c.p(6) & 6 == 6 && !El::ZST && !nonfused;
        let what = if in_unwind { format!("{} [called from a destructor during an unrelated unwind]", what) } else { what };
        if in_unwind {
            rt::run::trace_stream(&what);
        }
        let r = catch_unwind(AssertUnwindSafe(|| {
            let build = || track(|| -> Built<Hd, El> {
                match ctor {
                    0 => {
                        let mut v = items;
                        v.reserve(spare);
                        Built::Slice(Arc::from(v))
                    }
                    1 => Built::Slice(items.into_iter().collect()),
                    2 => Built::Slice(mk(items, second, if c.p(6) & 1 == 0 { 1 } else { 3 }).collect()),
                    3 => Built::Slice(mk(items, second, 2).collect()),
                    4 => Built::USlice(mk(items, second, c.p(3) % 5).collect()),
                    5 => {
                        uses_header = true;
                        Built::Hs(Arc::from_header_and_iter(hdr, mk(items, second, 0)))
                    }
                    6 => {
                        uses_header = true;
                        let mut v = items;
                        v.reserve(spare);
                        Built::Hs(Arc::from_header_and_vec(hdr, v))
                    }
                    7 => {
                        uses_header = true;
                        Built::Thin(ThinArc::from_header_and_iter(hdr, mk(items, second, 0)))
                    }
                    8 => {
                        let hs: Arc<HeaderSlice<(), [El]>> = Arc::from_header_and_vec((), items);
                        let plain: Arc<[El]> = hs.into();
                        let back: Arc<HeaderSlice<(), [El]>> = plain.into();
                        Built::Slice(back.into())
                    }
                    9 => Built::Sized(Arc::from(Box::new(items.into_iter().next().unwrap()))),
                    10 => Built::Slice(mk(items, second, 0).collect()),
                    11 => {
                        let x = items.into_iter().next().unwrap();
                        Built::Sized(if c.p(3) & 1 == 0 { Arc::new(x) } else { Arc::from(x) })
                    }
                    12 => {
                        let u = UniqueArc::new(items.into_iter().next().unwrap());
                        let v = UniqueArc::into_inner(u);
                        Built::Sized(Arc::new(v))
                    }
                    _ => {
                        uses_header = true;
                        let n = items.len();
                        let fat = Arc::from_header_and_iter(HeaderWithLength::new(hdr, n), mk(items, second, 0));
                        Built::Thin(Arc::into_thin(fat))
                    }
                }
            });
            if !in_unwind {
                return build();
            }
            struct OnDrop<F: FnOnce()>(Option<F>);
            impl<F: FnOnce()> Drop for OnDrop<F> {
                fn drop(&mut self) {
                    if let Some(f) = self.0.take() {
                        f()
                    }
                }
            }
            let mut out = None;
            let outer = catch_unwind(AssertUnwindSafe(|| {
                let _g = OnDrop(Some(|| out = Some(build())));
                std::panic::panic_any(tok::Injected);
            }));
            drop(outer);
            out.expect("the destructor ran")
        }));
        let mut nontrivial = (len >= 2 && !El::ZST) || (spare > 0 && (ctor == 0 || ctor == 6)) || matches!(ctor, 2 | 3);
        match r {
            Err(e) => {
                drop(e);
                // allowed only as the up-front refusal of zero-sized elements
                if !El::ZST {
                    viol::report(P6, "K.ctor-panic", format!("{}{}: the constructor panicked", what, if nonfused { " (honest non-fused iterator: None once, then a second batch)" } else { "" }));
                } else {
                    if !alloc::live_blocks().is_empty() {
                        viol::report(P6, "K.zst-refusal-leak", format!("{}: the up-front refusal left {} blocks allocated", what, alloc::live_blocks().len()));
                    }
                    if El::live_now() != Some(0) {
                        viol::report(P6, "K.zst-refusal-count", format!("{}: {:?} zero-sized values alive after the refusal (all inputs must have been dropped)", what, El::live_now()));
                    }
                    nontrivial = true;
                }
            }
            Ok((built, eff)) => {
                let survivors: Vec<Block> = eff.allocs.iter().filter(|b| alloc::block_by_seq(b.seq).map(|x| x.live).unwrap_or(false)).copied().collect();
                if survivors.len() != 1 {
                    viol::report(P6, "K.source-storage", format!("{}: {} blocks survive the call (expected exactly the new allocation; the source container's storage must be released): allocs {} frees {}", what, survivors.len(), eff.allocs.len(), eff.frees.len()));
                }
                let (h, els, rec) = built.read();
                if els.len() != len {
                    viol::report(P6, "K.len", format!("{}: the handle holds {} elements, the input had {}", what, els.len(), len));
                }
                if let Some(r) = rec {
                    if r != len {
                        viol::report(&["C06", "C10"], "K.recorded-len", format!("{}: recorded length {} != {}", what, r, len));
                    }
                }
                if !El::ZST {
                    for (i, p) in els.iter().enumerate() {
                        if !p.ok || Some(&p.id) != ids.get(i) || p.val != 1000 + i as u64 {
                            viol::report(P6, "K.contents", format!("{}: element {} reads {:?}, the input was tok {:?} val {}", what, i, p, ids.get(i), 1000 + i));
                            break;
                        }
                    }
                } else if El::live_now() != z_before {
                    viol::report(P6, "K.zst-count", format!("{}: {:?} zero-sized values alive, expected {:?}", what, El::live_now(), z_before));
                }
                if uses_header {
                    match h {
                        Some(p) if p.ok && p.id == hid => {}
                        other => viol::report(P6, "K.header", format!("{}: header reads {:?}, expected tok {}", what, other, hid)),
                    }
                }
                if let Some(n) = built.count() {
                    if n != 1 {
                        viol::report(&["C06", "C04"], "K.count", format!("{}: a fresh handle reports count {}", what, n));
                    }
                }
                for id in &ids {
                    if let Some((s, d)) = state(*id) {
                        if s != State::Live || d != 0 {
                            viol::report(P6, "K.moved-twice", format!("{}: input tok {} was destroyed ({} times) while the handle is alive", what, id, d));
                        }
                    }
                }
                // one case in four: a panic inside the k-th destructor that runs when the handle is released
                // (the destruction is recorded first; the rest is dropped while unwinding; the block must go)
                let dk = if c.p(7) & 3 == 3 { 1 + pick(c.p(6), (len + 1).min(9)) as i64 } else { 0 };
                tok::drop_panic_at(dk);
                let r = lib!(catch_unwind(AssertUnwindSafe(move || drop(built))));
                tok::drop_panic_at(0);
                drop(r);
                for id in ids.iter().chain(if uses_header { Some(&hid) } else { None }) {
                    match state(*id) {
                        Some((State::Dropped, 1)) => {}
                        Some((s, d)) => viol::report(P6, "K.drop-once", format!("{}: tok {} is {:?} with {} destructor runs after the handle was dropped (expected exactly one)", what, id, s, d)),
                        None => {}
                    }
                }
                for id in &second_ids {
                    match state(*id) {
                        Some((State::Dropped, 1)) => {}
                        Some((s, d)) => viol::report(P6, "K.nonfused-second-batch", format!("{} (non-fused iterator): item tok {} of the second batch is {:?} with {} destructor runs at the end (the iterator was given by value: exactly one)", what, id, s, d)),
                        None => {}
                    }
                }
                if El::ZST && El::live_now() != Some(0) {
                    viol::report(P6, "K.zst-count", format!("{}: {:?} zero-sized values alive after the handle was dropped", what, El::live_now()));
                }
                if !alloc::live_blocks().is_empty() {
                    viol::report(&["C06", "C01"], "K.leak", format!("{}: {} blocks still allocated after the handle was dropped", what, alloc::live_blocks().len()));
                }
            }
        }
        let viols = viol::take();
        let _ = alloc::case_end();
        let mut labels: Vec<&'static str> = vec![CTORS[ctor]];
        if len >= 64 {
            labels.push("len>=64");
        }
        if len == 0 {
            labels.push("len=0");
        }
        CaseReport { viols, nontrivial, labels, trace: if trace { vec![what] } else { vec![] } }
    }
}

/// Copy constructors over plain element types and strings.
pub struct CopyCtorEngine;

fn copy_case<T: Copy + PartialEq + std::fmt::Debug + Send + Sync + 'static>(what: &mut String, c: &ByteCase, mk: impl Fn(u32) -> T, tname: &str) {
    let len = if c.p(1) >= 250 { LENS[40 + (c.p(1) as usize - 250) % 6] } else { LENS[pick(c.p(1), 40).min(39)] };
    let items: Vec<T> = (0..len).map(|i| mk((i as u32).wrapping_mul(2654435761).wrapping_add(c.p(2) as u32))).collect();
    let which = pick(c.p(3), 3);
    *what = format!("{} over {} x {}", ["Arc::from_header_and_slice", "ThinArc::from_header_and_slice", "Arc::<[T]>::from(&[T])"][which], len, tname);
    rt::run::trace_stream(&what);
    let hdr = (c.p(4), c.p(5) as u32);
    let cmp = |got: &[T]| {
        if got.len() != items.len() || got.iter().zip(items.iter()).any(|(a, b)| !bits_eq(a, b)) {
            viol::report(P6, "K.contents", format!("{}: contents differ from the input slice", what));
        }
    };
    match which {
        0 => {
            let (a, eff) = track(|| Arc::from_header_and_slice(hdr, &items));
            cmp(&a.slice);
            if a.header != hdr || eff.allocs.len() != 1 {
                viol::report(P6, "K.header", format!("{}: header differs or {} allocations", what, eff.allocs.len()));
            }
        }
        1 => {
            let (a, _) = track(|| ThinArc::from_header_and_slice(hdr, &items));
            cmp(&a.slice);
            if a.header.header != hdr || a.header.length != len {
                viol::report(&["C06", "C10"], "K.header", format!("{}: header or recorded length {} differs", what, a.header.length));
            }
        }
        _ => {
            let (a, _): (Arc<[T]>, _) = track(|| Arc::from(&items[..]));
            cmp(&a);
        }
    }
    if !alloc::live_blocks().is_empty() {
        viol::report(&["C06", "C01"], "K.leak", format!("{}: blocks still allocated after the handle was dropped", what));
    }
}

fn bits_eq<T: Copy>(a: &T, b: &T) -> bool {
    let n = std::mem::size_of::<T>();
    unsafe { std::slice::from_raw_parts(a as *const T as *const u8, n) == std::slice::from_raw_parts(b as *const T as *const u8, n) }
}

/// Default is a constructor too: wherever a handle type implements it (today: Arc<T: Default> only), the
/// result must be a FRESH SOLE OWNER of the payload's default value — autoref probes, so that an impl that
/// appears later (Arc<str>, Arc<[T]>, ThinArc, ...) is checked without the harness depending on it.
pub struct OptD<T>(pub std::marker::PhantomData<T>);
pub trait NoDefaultImpl<T> {
    fn opt_default(&self) -> Option<T> {
        None
    }
}
impl<T> NoDefaultImpl<T> for &OptD<T> {}
impl<T: Default> OptD<T> {
    pub fn opt_default(&self) -> Option<T> {
        Some(T::default())
    }
}

fn default_probes() {
    use std::marker::PhantomData as PD;
    const PD6: &[&str] = &["C06", "C04", "C09"];
    macro_rules! arc_like {
        ($t:ty, $name:expr, $is_default:expr) => {{
            let (a, b): (Option<$t>, Option<$t>) = ((&OptD::<$t>(PD)).opt_default(), (&OptD::<$t>(PD)).opt_default());
            if let (Some(mut a), Some(b)) = (a, b) {
                let ok_val = $is_default(&a) && $is_default(&b);
                let (ca, cb) = (Arc::count(&a), Arc::count(&b));
                if !ok_val || ca != 1 || cb != 1 || !a.is_unique() || Arc::get_mut(&mut a).is_none() || Arc::ptr_eq(&a, &b) && std::mem::size_of_val(&*a) != 0 {
                    viol::report(PD6, "K.default", format!("{}::default(): value ok {}, counts {} / {} (a fresh sole owner must report 1), is_unique {}, two defaults share an allocation: {}", $name, ok_val, ca, cb, a.is_unique(), Arc::ptr_eq(&a, &b)));
                }
                let u = Arc::try_unique(a);
                if u.is_err() {
                    viol::report(PD6, "K.default", format!("{}::default(): try_unique refuses the only owner", $name));
                }
                drop(u);
                drop(b);
            }
        }};
    }
    arc_like!(Arc<u64>, "Arc<u64>", |a: &Arc<u64>| **a == 0);
    arc_like!(Arc<String>, "Arc<String>", |a: &Arc<String>| a.is_empty());
    arc_like!(Arc<str>, "Arc<str>", |a: &Arc<str>| a.is_empty());
    arc_like!(Arc<[u32]>, "Arc<[u32]>", |a: &Arc<[u32]>| a.is_empty());
    arc_like!(Arc<HeaderSlice<u8, [u16]>>, "Arc<HeaderSlice<u8,[u16]>>", |a: &Arc<HeaderSlice<u8, [u16]>>| a.header == 0 && a.slice.is_empty());
    if let Some(t) = (&OptD::<ThinArc<u8, u16>>(PD)).opt_default() {
        let n = ThinArc::strong_count(&t);
        if n != 1 || t.header.header != 0 || !t.slice.is_empty() {
            viol::report(PD6, "K.default", format!("ThinArc::default(): count {} header {} len {}", n, t.header.header, t.slice.len()));
        }
    }
    if let Some(o) = (&OptD::<triomphe::OffsetArc<u64>>(PD)).opt_default() {
        if triomphe::OffsetArc::strong_count(&o) != 1 || *o != 0 {
            viol::report(PD6, "K.default", format!("OffsetArc::default(): count {} value {}", triomphe::OffsetArc::strong_count(&o), *o));
        }
    }
    if let Some(u) = (&OptD::<UniqueArc<u64>>(PD)).opt_default() {
        if *u != 0 {
            viol::report(PD6, "K.default", format!("UniqueArc::default(): value {}", *u));
        }
    }
    if !alloc::live_blocks().is_empty() {
        viol::report(PD6, "K.default", "blocks left allocated after dropping every Default-constructed handle".to_string());
    }
}

impl Engine for CopyCtorEngine {
    fn name(&self) -> String {
        "ctor-copy".into()
    }
    fn params_len(&self) -> usize {
        8
    }
    fn ops_range(&self) -> (usize, usize) {
        (0, 160)
    }
    fn run(&self, c: &ByteCase, trace: bool) -> CaseReport {
        let _ = alloc::case_end();
        let _ = viol::take();
        let mut what = String::new();
        let mut labels = vec![];
        if c.p(7) & 7 == 0 {
            let r0 = catch_unwind(AssertUnwindSafe(default_probes));
            if r0.is_err() {
                viol::report(&["C06", "C04", "C09"], "K.default", "a Default impl of a handle type panicked".to_string());
            }
            labels.push("default-probes");
        }
        let r = catch_unwind(AssertUnwindSafe(|| match pick(c.p(0), 7) {
            0 => copy_case::<u8>(&mut what, c, |x| x as u8, "u8"),
            1 => copy_case::<u16>(&mut what, c, |x| x as u16, "u16"),
            2 => copy_case::<u32>(&mut what, c, |x| x, "u32"),
            3 => copy_case::<u64>(&mut what, c, |x| (x as u64) << 20 | x as u64, "u64"),
            4 => copy_case::<f32>(&mut what, c, f32::from_bits, "f32"),
            5 => copy_case::<(u8, u32)>(&mut what, c, |x| (x as u8, x), "(u8,u32) (padded)"),
            _ => {
                // strings, multi-byte UTF-8 included
                let s: String = c.ops.iter().flat_map(|o| o.iter()).map(|b| ['a', 'é', '漢', '🦀', ' ', 'Z', '\u{0}', 'ß'][(*b % 8) as usize]).collect();
                let which = pick(c.p(3), 3);
                what = format!("{} over a {}-byte string", ["Arc::<str>::from(&str)", "Arc::<str>::from(String)", "Arc::from_header_and_str"][which], s.len());
                rt::run::trace_stream(&what);
                labels.push("str");
                match which {
                    0 => {
                        let (a, _): (Arc<str>, _) = track(|| Arc::from(&s[..]));
                        if &*a != &s[..] {
                            viol::report(P6, "K.contents", format!("{}: contents differ", what));
                        }
                    }
                    1 => {
                        let (a, eff): (Arc<str>, _) = track(|| Arc::from(s.clone()));
                        if &*a != &s[..] {
                            viol::report(P6, "K.contents", format!("{}: contents differ", what));
                        }
                        let survivors = eff.allocs.iter().filter(|b| alloc::block_by_seq(b.seq).map(|x| x.live).unwrap_or(false)).count();
                        if survivors != 1 {
                            viol::report(P6, "K.source-storage", format!("{}: {} blocks survive the call (the String's buffer must be released)", what, survivors));
                        }
                    }
                    _ => {
                        let (a, _) = track(|| Arc::from_header_and_str(c.p(4), &s));
                        if &a.slice != &s[..] || a.header != c.p(4) {
                            viol::report(P6, "K.contents", format!("{}: contents or header differ", what));
                        }
                    }
                }
                if !alloc::live_blocks().is_empty() {
                    viol::report(&["C06", "C01"], "K.leak", format!("{}: blocks still allocated after the handle was dropped", what));
                }
            }
        }));
        if r.is_err() {
            viol::report(P6, "K.ctor-panic", format!("{}: the constructor panicked", what));
        }
        let viols = viol::take();
        let _ = alloc::case_end();
        CaseReport { viols, nontrivial: true, labels, trace: if trace { vec![what] } else { vec![] } }
    }
}

pub fn ctor_engines() -> Vec<(Box<dyn Engine>, u64)> {
    vec![
        (Box::new(CtorEngine::<Tok8b, Tok8>::new()), 4),
        (Box::new(CtorEngine::<Tok1, Tok16>::new()), 2),
        (Box::new(CtorEngine::<Tok16, Tok1>::new()), 2),
        (Box::new(CtorEngine::<Tok4, Tok4>::new()), 2),
        (Box::new(CtorEngine::<Tok8b, TokZ<1>>::new()), 1),
        (Box::new(CopyCtorEngine), 3),
        // padding between header and slice in the FAT layout (header size 16, element alignment 32): the four
        // combinations above have it only behind HeaderWithLength
        (Box::new(CtorEngine::<Tok1, Tok32>::new()), 2),
    ]
}

// ------------------------------------------------------------------------------------
// C07
// ------------------------------------------------------------------------------------
pub struct FaultEngine<Hd: TokP, El: TokP> {
    _p: PhantomData<fn() -> (Hd, El)>,
}
impl<Hd: TokP, El: TokP> FaultEngine<Hd, El> {
    pub fn new() -> Self {
        FaultEngine { _p: PhantomData }
    }
}

pub const FAULT_APIS: [&str; 17] = [
    "Arc::from_header_and_iter",
    "ThinArc::from_header_and_iter",
    "collect::<Arc<[T]>>()",
    "collect::<UniqueArc<[T]>>()",
    "Arc::make_mut (Clone panics)",
    "Arc::make_unique (Clone panics)",
    "Arc::unwrap_or_clone (Clone panics)",
    "OffsetArc::make_mut (Clone panics)",
    "ThinArc::with_arc closure panics",
    "OffsetArc::with_arc closure panics",
    "ArcBorrow::with_arc closure panics",
    "Arc::with_raw_offset_arc closure panics",
    "ThinArc::with_arc_mut closure panics",
    "comparison / hash / format of the payload panics",
    "Arc::from_header_and_vec (no user code; control)",
    "lying ExactSizeIterator into IteratorAsExactSizeIterator (collect, exact hint)",
    "Arc::<T>::default() (Default::default panics)",
];

impl<Hd: TokP, El: TokP> FaultEngine<Hd, El> {
    /// iterator-driven constructors under panics and lies
    fn iter_case(c: &ByteCase, api: usize, what: &mut String, nt: &mut bool, labels: &mut Vec<&'static str>) {
        let len = pick(c.p(1), 7);
        // lie offsets in -2..=2 for up to three successive answers
        let lie = |b: u8| (b % 5) as i64 - 2;
        let lies = if c.p(2) & 1 == 0 { vec![0] } else { vec![lie(c.p(3)), lie(c.p(4)), lie(c.p(5))] };
        let lying = lies.iter().any(|l| *l != 0) && c.p(7) < 240;
        let hint_mode = if api >= 2 && api != 15 { c.p(6) % 3 } else { 0 };
        let (items, ids) = toks::<El>(len, 2000);
        let h = Hd::make(9);
        let hid = h.peekp().id;
        // how many callbacks would a fault-free run make? run the same constructor un-armed on a twin
        let k = c.p(7) as i64 % 24; // 0 = no panic
        *what = format!("{} over {} items, len()/size_hint() offsets {:?}, hint mode {}, panic at callback {}", FAULT_APIS[api], len, lies, hint_mode, k);
        rt::run::trace_stream(&what);
        // one case in sixteen: honest iterator, no callback fault, but the iterator's own destructor panics once
        // the constructor is done with it (a by-value argument dropped after the result was built)
        let iter_drop_panics = c.p(7) >= 240;
        let (lies, k) = if iter_drop_panics { (vec![0], 0) } else { (lies, k) };
        if iter_drop_panics {
            what.push_str(" [the iterator's own Drop panics]");
            rt::run::trace_stream(&what);
        }
        let it = GenIter { items: items.into(), hint_mode, lies, asks: 0, yielded: 0, second: VecDeque::new(), gave_none: false, drop_panic: iter_drop_panics };
        reset_len_asks();
        tok::panic_at(k);
        enum Out<Hd: TokP, El: TokP> {
            Hs(Arc<HeaderSlice<Hd, [El]>>),
            Thin(ThinArc<Hd, El>),
            Slice(Arc<[El]>),
            USlice(UniqueArc<[El]>),
        }
        let uses_header = api <= 1;
        let mut hopt = Some(h);
        let r = catch_unwind(AssertUnwindSafe(|| {
            track(|| -> Out<Hd, El> {
                match api {
                    0 => Out::Hs(Arc::from_header_and_iter(hopt.take().unwrap(), it)),
                    1 => Out::Thin(ThinArc::from_header_and_iter(hopt.take().unwrap(), it)),
                    2 | 15 => Out::Slice(it.collect()),
                    _ => Out::USlice(it.collect()),
                }
            })
        }));
        let fired = tok::callbacks() as i64 >= k && k > 0;
        // the tracking allocator reports a release whose layout differs from the request under C05; when it happens
        // on the cleanup path of a constructor it is this property's business too
        let bad_layouts = viol::count_clause("F.layout-mismatch") + viol::count_clause("F.interior-free") + viol::count_clause("F.double-free");
        if bad_layouts > 0 {
            viol::report(&["C07", "C05"], "J.cleanup-release", format!("{}: the constructor's own cleanup released a block wrongly ({} allocator-level reports: layout mismatch / interior pointer / double free)", what, bad_layouts));
        }
        tok::panic_at(0);
        drop(hopt);
        let injected = fired || iter_drop_panics;
        if iter_drop_panics {
            labels.push("iterator-drop-panicked");
        }
        match r {
            Ok((out, _eff)) => {
                // a returned handle must hold exactly the items that were yielded, in order
                let (hp, els, rec): (Option<rt::tok::Peek>, Vec<rt::tok::Peek>, Option<usize>) = match &out {
                    Out::Hs(a) => (Some(a.header.peekp()), a.slice.iter().map(|e| e.peekp()).collect(), None),
                    Out::Thin(a) => (Some(a.header.header.peekp()), a.slice.iter().map(|e| e.peekp()).collect(), Some(a.header.length)),
                    Out::Slice(a) => (None, a.iter().map(|e| e.peekp()).collect(), None),
                    Out::USlice(a) => (None, a.iter().map(|e| e.peekp()).collect(), None),
                };
                for (i, p) in els.iter().enumerate() {
                    if !p.ok || Some(&p.id) != ids.get(i) {
                        viol::report(P7, "J.contents-after-lie", format!("{}: the returned handle's element {} reads {:?} (expected input tok {:?})", what, i, p, ids.get(i)));
                        break;
                    }
                }
                if let Some(r) = rec {
                    if r != els.len() {
                        viol::report(&["C07", "C10"], "J.recorded-len", format!("{}: ThinArc recorded length {} but {} elements", what, r, els.len()));
                    }
                }
                // the allocation was filled with every item the iterator handed out: the handle must show them all
                // (a ThinArc's view is as long as its recorded length says)
                if els.len() != yielded() {
                    if rec.is_some() {
                        viol::report(&["C07", "C10"], "J.recorded-len", format!("{}: the ThinArc shows {} elements (its recorded length) but the constructor took {} items from the iterator", what, els.len(), yielded()));
                    } else {
                        viol::report(P7, "J.len-after-lie", format!("{}: the handle shows {} elements but the constructor took {} items from the iterator", what, els.len(), yielded()));
                    }
                }
                if uses_header && hp.map(|p| p.ok && p.id == hid) != Some(true) {
                    viol::report(P7, "J.header", format!("{}: header reads {:?}", what, hp));
                }
                let held = els.len();
                lib!(drop(out));
                for (i, id) in ids.iter().enumerate() {
                    match state(*id) {
                        Some((State::Dropped, 1)) => {}
                        Some((s, d)) => {
                            if i < held || d > 1 {
                                viol::report(P7, "J.drop-once", format!("{}: input tok {} (index {}) is {:?} with {} destructor runs after the returned handle was dropped", what, id, i, s, d));
                            } else {
                                // never pulled out of the iterator and the iterator was consumed by the library:
                                // it must have been dropped with the iterator
                                viol::report(P7, "J.lost-item", format!("{}: input tok {} (index {}) was neither delivered nor destroyed", what, id, i));
                            }
                        }
                        None => {}
                    }
                }
                if !alloc::live_blocks().is_empty() {
                    viol::report(P7, "J.leak-without-panic", format!("{}: the constructor returned normally but {} blocks are still allocated after dropping the handle", what, alloc::live_blocks().len()));
                }
                if lying {
                    *nt = true;
                    labels.push("lie-accepted");
                }
            }
            Err(e) => {
                drop(e);
                // survivors: nothing to hold. Every tok at most once (registry reports double drops itself);
                // a leaked tok is tolerated only inside a leaked half-built block.
                let leaked_blocks = alloc::live_blocks();
                if leaked_blocks.len() > 1 {
                    viol::report(P7, "J.leak", format!("{}: {} blocks leaked by a panicking constructor (only the half-built allocation is tolerated)", what, leaked_blocks.len()));
                }
                let mut leaked_toks = 0;
                for id in ids.iter().chain(if uses_header { Some(&hid) } else { None }) {
                    match state(*id) {
                        Some((State::Dropped, 1)) => {}
                        Some((State::Live, 0)) => leaked_toks += 1,
                        Some((s, d)) => viol::report(P7, "J.drop-once", format!("{}: tok {} is {:?} with {} destructor runs after the panic", what, id, s, d)),
                        None => {}
                    }
                }
                if leaked_toks > 0 && leaked_blocks.is_empty() {
                    viol::report(P7, "J.leak-values", format!("{}: {} values were neither destroyed nor part of a leaked half-built allocation", what, leaked_toks));
                }
                if !leaked_blocks.is_empty() {
                    labels.push("tolerated-half-built-leak");
                }
                if injected || lying {
                    *nt = true;
                }
                if lying && !injected {
                    labels.push("lie-refused-with-panic");
                }
                if !injected && !lying {
                    viol::report(P7, "J.spurious-panic", format!("{}: panicked although the iterator was honest and no fault was injected", what));
                }
            }
        }
    }

    /// Clone / closure / comparison callbacks under an injected panic, in a shared or unique state
    fn callback_case(c: &ByteCase, api: usize, what: &mut String, nt: &mut bool, labels: &mut Vec<&'static str>) {
        let shared = c.p(1) & 1 == 1;
        let k = 1 + (c.p(2) % 3) as i64; // first, second or third callback (the third usually does not exist: control)
        *what = format!("{} with the handle {} and a panic armed at callback {}", FAULT_APIS[api], if shared { "shared (2 owners)" } else { "unique" }, k);
        rt::run::trace_stream(&what);
        let v = El::make(300);
        let id = v.peekp().id;
        let mut a: Arc<El> = lib!(Arc::new(v));
        let other: Option<Arc<El>> = if shared { Some(lib!(a.clone())) } else { None };
        let owners = if shared { 2 } else { 1 };
        let check_survivors = |a: &Arc<El>, other: &Option<Arc<El>>, expect_same: bool, what: &str| {
            if let Some(o) = other {
                let p = o.peekp();
                if !p.ok || p.id != id {
                    viol::report(P7, "J.survivor-value", format!("{}: the co-owner reads {:?} after the unwind", what, p));
                }
                let expect = if expect_same { 2 } else { 1 };
                if Arc::count(o) != expect {
                    viol::report(&["C07", "C04"], "J.survivor-count", format!("{}: the co-owner's count is {} after the unwind (expected {})", what, Arc::count(o), expect));
                }
            }
            let p = a.peekp();
            if !p.ok {
                viol::report(P7, "J.survivor-value", format!("{}: the handle reads {:?} after the unwind", what, p));
            }
        };
        let mut fired = false;
        match api {
            4 | 5 => {
                tok::panic_at(k);
                let r = catch_unwind(AssertUnwindSafe(|| {
                    lib!(if api == 4 {
                        Arc::make_mut(&mut a).peekp().id
                    } else {
                        (**Arc::make_unique(&mut a)).peekp().id
                    })
                }));
                fired = r.is_err();
                tok::panic_at(0);
                // unwound: the handle must still be the old one, the count unchanged
                check_survivors(&a, &other, r.is_err() || !shared, what);
                if r.is_err() && (a.peekp().id != id || Arc::count(&a) != owners) {
                    viol::report(P7, "J.make-mut-unwind", format!("{}: after the unwind the handle points elsewhere or the count is {}", what, Arc::count(&a)));
                }
            }
            6 => {
                tok::panic_at(k);
                let r = catch_unwind(AssertUnwindSafe(|| lib!(Arc::unwrap_or_clone(a))));
                tok::panic_at(0);
                fired = r.is_err();
                // the Arc was consumed either way: one owner released
                if let Some(o) = &other {
                    if Arc::count(o) != 1 || !o.peekp().ok {
                        viol::report(&["C07", "C04"], "J.survivor-count", format!("{}: the co-owner's count is {} after unwrap_or_clone (expected 1)", what, Arc::count(o)));
                    }
                }
                drop(r);
                lib!(drop(other));
                Self::finish(what, &[id]);
                if fired {
                    *nt = true;
                    labels.push("clone-panicked");
                }
                return;
            }
            7 => {
                let mut o: OffsetArc<El> = lib!(Arc::into_raw_offset(a.clone()));
                tok::panic_at(k);
                let r = catch_unwind(AssertUnwindSafe(|| lib!(o.make_mut().peekp().id)));
                tok::panic_at(0);
                fired = r.is_err();
                // three owners before: a, (other), o
                let expect = owners + 1;
                if r.is_err() {
                    if OffsetArc::strong_count(&o) != expect || o.peekp().id != id {
                        viol::report(&["C07", "C04"], "J.offset-make-mut-unwind", format!("{}: after the unwind the OffsetArc reads tok {} with count {} (expected tok {} count {})", what, o.peekp().id, OffsetArc::strong_count(&o), id, expect));
                    }
                }
                lib!(drop(o));
                check_survivors(&a, &other, true, what);
            }
            8 => {
                let t: ThinArc<Hd, El> = lib!(ThinArc::from_header_and_iter(Hd::make(1), vec![El::make(301), El::make(302)].into_iter()));
                let t2 = if shared { Some(lib!(t.clone())) } else { None };
                let r = catch_unwind(AssertUnwindSafe(|| lib!(t.with_arc(|x| {
                    let keep = x.clone();
                    if k == 1 {
                        std::panic::panic_any(tok::Injected)
                    }
                    keep
                }))));
                fired = r.is_err();
                let expect = owners + if r.is_ok() { 1 } else { 0 };
                if ThinArc::strong_count(&t) != expect {
                    viol::report(&["C07", "C04"], "J.with-arc-unwind", format!("{}: count {} after the callback (expected {})", what, ThinArc::strong_count(&t), expect));
                }
                drop(r);
                lib!(drop(t2));
                lib!(drop(t));
            }
            9 | 10 | 11 => {
                let o: OffsetArc<El> = lib!(Arc::into_raw_offset(a.clone()));
                let r = catch_unwind(AssertUnwindSafe(|| match api {
                    9 => lib!(o.with_arc(|x| {
                        let c = x.clone();
                        if k == 1 {
                            std::panic::panic_any(tok::Injected)
                        }
                        c
                    })),
                    10 => lib!(a.borrow_arc().with_arc(|x| {
                        let c = x.clone();
                        if k == 1 {
                            std::panic::panic_any(tok::Injected)
                        }
                        c
                    })),
                    _ => lib!(a.with_raw_offset_arc(|x| {
                        let c = x.clone_arc();
                        if k == 1 {
                            std::panic::panic_any(tok::Injected)
                        }
                        c
                    })),
                }));
                fired = r.is_err();
                let expect = owners + 1 + if r.is_ok() { 1 } else { 0 };
                if Arc::count(&a) != expect {
                    viol::report(&["C07", "C04"], "J.with-arc-unwind", format!("{}: count {} after the callback (expected {})", what, Arc::count(&a), expect));
                }
                drop(r);
                lib!(drop(o));
                check_survivors(&a, &other, true, what);
            }
            13 => {
                // payload comparison / hash / format panics while handles are being compared
                let b: Arc<El> = lib!(Arc::new(El::make(300)));
                let id_b = b.peekp().id;
                let u1: ArcUnion<El, Hd> = lib!(ArcUnion::from_first(a.clone()));
                let u2: ArcUnion<El, Hd> = lib!(ArcUnion::from_first(b.clone()));
                let o1 = lib!(Arc::into_raw_offset(a.clone()));
                let o2 = lib!(Arc::into_raw_offset(b.clone()));
                tok::panic_at(k);
                let which = c.p(3) % 7;
                let r = catch_unwind(AssertUnwindSafe(|| match which {
                    0 => a == b,
                    1 => a.partial_cmp(&b).is_some(),
                    2 => {
                        let mut h = std::collections::hash_map::DefaultHasher::new();
                        std::hash::Hash::hash(&a, &mut h);
                        true
                    }
                    3 => format!("{:?}", a).is_empty(),
                    4 => u1 == u2,
                    5 => o1 == o2,
                    _ => a.borrow_arc() == b.borrow_arc(),
                }));
                tok::panic_at(0);
                fired = r.is_err();
                let ea = owners + 2;
                if Arc::count(&a) != ea || Arc::count(&b) != 3 {
                    viol::report(&["C07", "C04"], "J.cmp-unwind", format!("{}: counts {} / {} after a panicking comparison (expected {} / 3)", what, Arc::count(&a), Arc::count(&b), ea));
                }
                lib!(drop(u1));
                lib!(drop(u2));
                lib!(drop(o1));
                lib!(drop(o2));
                check_survivors(&a, &other, true, what);
                lib!(drop(b));
                lib!(drop(other));
                lib!(drop(a));
                Self::finish(what, &[id, id_b]);
                if fired {
                    *nt = true;
                    labels.push("comparison-panicked");
                }
                return;
            }
            _ => {}
        }
        if fired {
            *nt = true;
            labels.push(if api <= 7 { "clone-panicked" } else { "closure-panicked" });
        }
        lib!(drop(other));
        lib!(drop(a));
        Self::finish(what, &[]);
    }

    fn finish(what: &str, must_be_dropped: &[u32]) {
        for id in must_be_dropped {
            match state(*id) {
                Some((State::Dropped, 1)) => {}
                Some((s, d)) => viol::report(P7, "J.drop-once", format!("{}: tok {} is {:?} with {} destructor runs at the end", what, id, s, d)),
                None => {}
            }
        }
        for id in tok::live_ids() {
            viol::report(P7, "J.leak-values", format!("{}: tok {} still alive after every handle was dropped", what, id));
        }
        if !alloc::live_blocks().is_empty() {
            viol::report(P7, "J.leak", format!("{}: {} blocks still allocated after every handle was dropped", what, alloc::live_blocks().len()));
        }
    }
}

impl<Hd: TokP, El: TokP> Engine for FaultEngine<Hd, El> {
    fn name(&self) -> String {
        format!("fault<{},{}>", Hd::tyname(), El::tyname())
    }
    fn params_len(&self) -> usize {
        8
    }
    fn ops_range(&self) -> (usize, usize) {
        (0, 0)
    }
    fn run(&self, c: &ByteCase, trace: bool) -> CaseReport {
        let _ = alloc::case_end();
        tok::reset();
        let _ = viol::take();
        let api = pick(c.p(0), FAULT_APIS.len());
        let mut what = String::new();
        let mut nt = false;
        let mut labels: Vec<&'static str> = vec![FAULT_APIS[api]];
        let r = catch_unwind(AssertUnwindSafe(|| match api {
            0..=3 | 15 => Self::iter_case(c, api, &mut what, &mut nt, &mut labels),
            14 => {
                let (items, ids) = toks::<El>(pick(c.p(1), 7), 10);
                let a = lib!(Arc::from_header_and_vec(Hd::make(1), items));
                lib!(drop(a));
                Self::finish("from_header_and_vec control", &ids);
            }
            16 => {
                // Default::default is user code too: a panic there must leave nothing half-built behind
                let k = (c.p(1) % 2) as i64;
                what = format!("Arc::<{}>::default() with a panic armed at callback {}", El::tyname(), k);
                rt::run::trace_stream(&what);
                tok::panic_at(k);
                let r = catch_unwind(AssertUnwindSafe(|| lib!(Arc::<El>::default())));
                tok::panic_at(0);
                match r {
                    Ok(a) => {
                        let p = a.peekp();
                        if !p.ok || p.val != 0 || Arc::count(&a) != 1 {
                            viol::report(&["C07", "C06"], "J.default-value", format!("{}: the handle reads {:?} with count {} (expected the default value, count 1)", what, p, Arc::count(&a)));
                        }
                        let id = p.id;
                        lib!(drop(a));
                        Self::finish(&what, &[id]);
                        if k != 0 {
                            viol::report(P7, "J.lost-panic", format!("{}: the injected panic did not propagate", what));
                        }
                    }
                    Err(e) => {
                        drop(e);
                        // a destructor on the unwritten slot is reported by the payload itself (L.drop-bad-magic)
                        Self::finish(&what, &[]);
                        nt = true;
                        labels.push("default-panicked");
                    }
                }
            }
            12 => {
                // with_arc_mut: panic before / after replacing (also in the thin history engine)
                let mut t: ThinArc<Hd, El> = lib!(ThinArc::from_header_and_iter(Hd::make(1), vec![El::make(1), El::make(2)].into_iter()));
                let fresh = lib!(Arc::protected_from_thin(ThinArc::from_header_and_iter(Hd::make(2), vec![El::make(3)].into_iter())));
                let after = c.p(1) & 1 == 1;
                what = format!("ThinArc::with_arc_mut: panic {} replacing the Arc", if after { "after" } else { "before" });
                rt::run::trace_stream(&what);
                let mut f = Some(fresh);
                let r = catch_unwind(AssertUnwindSafe(|| {
                    lib!(t.with_arc_mut(|a| {
                        if after {
                            *a = f.take().unwrap();
                        }
                        std::panic::panic_any(tok::Injected)
                    }))
                }));
                drop(r);
                let n = t.slice.len();
                if n != if after { 1 } else { 2 } || ThinArc::strong_count(&t) != 1 {
                    viol::report(&["C07", "C10"], "J.with-arc-mut-unwind", format!("{}: afterwards the ThinArc has {} elements and count {}", what, n, ThinArc::strong_count(&t)));
                }
                lib!(drop(f));
                lib!(drop(t));
                Self::finish(&what, &[]);
                nt = true;
                labels.push("closure-panicked");
            }
            _ => Self::callback_case(c, api, &mut what, &mut nt, &mut labels),
        }));
        tok::panic_at(0);
        if r.is_err() {
            viol::report(P7, "M.panic", format!("{}: a panic escaped the harness's catch_unwind", what));
        }
        let viols = viol::take();
        let _ = alloc::case_end();
        CaseReport { viols, nontrivial: nt, labels, trace: if trace { vec![what] } else { vec![] } }
    }
}

pub fn fault_engines() -> Vec<(Box<dyn Engine>, u64)> {
    vec![
        (Box::new(FaultEngine::<Tok8b, Tok8>::new()), 4),
        (Box::new(FaultEngine::<Tok1, Tok16>::new()), 2),
        (Box::new(FaultEngine::<Tok16, Tok1>::new()), 2),
        (Box::new(FaultEngine::<Tok4, Tok4>::new()), 1),
    ]
}

// ------------------------------------------------------------------------------------
// allocation failure (child processes)
// ------------------------------------------------------------------------------------
pub const ALLOC_CTORS: [&str; 12] = [
    "Arc::new",
    "Arc::from(Box<T>)",
    "UniqueArc::new_uninit",
    "Arc::new_uninit_slice",
    "Arc::from_header_and_iter",
    "Arc::from_header_and_vec",
    "Arc::from_header_and_slice",
    "ThinArc::from_header_and_slice",
    "collect::<Arc<[T]>>() exact",
    "collect::<Arc<[T]>>() inexact",
    "Arc::from(&str)",
    "Arc::make_mut (shared)",
];

/// `tv child c07alloc <ctor> <k>`: fail the k-th allocation inside the bracket of one constructor
pub fn alloc_child_main(ctor: usize, k: i64) -> ! {
    use std::io::Write;
    std::panic::set_hook(Box::new(|_| {}));
    // inputs are built before the bracket
    let v: Vec<u64> = (0..5).collect();
    let b = Box::new(77u64);
    let shared = Arc::new(5u64);
    let mut shared2 = shared.clone();
    let _ = alloc::set_track(true);
    alloc::fail_at(k);
    let before = alloc::tracked_allocs();
    let ok: bool = match ctor {
        0 => *Arc::new(3u64) == 3,
        1 => *Arc::<u64>::from(b) == 77,
        2 => {
            let mut u = UniqueArc::<u64>::new_uninit();
            u.write(9);
            true
        }
        3 => Arc::<[std::mem::MaybeUninit<u32>]>::new_uninit_slice(7).len() == 7,
        4 => Arc::from_header_and_iter(1u8, v.clone().into_iter()).slice.len() == 5,
        5 => Arc::from_header_and_vec(1u8, v.clone()).slice.len() == 5,
        6 => Arc::from_header_and_slice(1u8, &v).slice.len() == 5,
        7 => ThinArc::from_header_and_slice(1u8, &v).slice.len() == 5,
        8 => v.iter().copied().collect::<Arc<[u64]>>().len() == 5,
        9 => v.iter().copied().filter(|_| true).collect::<Arc<[u64]>>().len() == 5,
        10 => Arc::<str>::from("hello world").len() == 11,
        _ => {
            *Arc::make_mut(&mut shared2) = 6;
            *shared == 5
        }
    };
    let n = alloc::tracked_allocs() - before;
    alloc::fail_at(0);
    alloc::set_track(false);
    println!("SURVIVED ok={} allocs={}", ok, n);
    let _ = std::io::stdout().flush();
    unsafe { libc::_exit(0) }
}

pub struct AllocFailEngine;
impl Engine for AllocFailEngine {
    fn name(&self) -> String {
        "alloc-failure-children".into()
    }
    fn params_len(&self) -> usize {
        2
    }
    fn ops_range(&self) -> (usize, usize) {
        (0, 0)
    }
    fn enum_len(&self) -> Option<u64> {
        Some(ALLOC_CTORS.len() as u64 * 5)
    }
    fn enum_at(&self, i: u64) -> Option<ByteCase> {
        Some(ByteCase { params: vec![(i / 5) as u8, (i % 5) as u8], ops: vec![] })
    }
    fn run(&self, c: &ByteCase, trace: bool) -> CaseReport {
        let _ = viol::take();
        let ctor = c.p(0) as usize % ALLOC_CTORS.len();
        let k = c.p(1) as i64 % 5; // 0 = control (no failure)
        let o = child::run_self(&["child".into(), "c07alloc".into(), ctor.to_string(), k.to_string()], &[], Duration::from_secs(20));
        let what = format!("{} with allocation #{} inside the call failing", ALLOC_CTORS[ctor], k);
        rt::run::trace_stream(&what);
        let survived = o.stdout.lines().find(|l| l.starts_with("SURVIVED")).map(|s| s.to_string());
        let allocs: Option<i64> = survived.as_ref().and_then(|s| s.split("allocs=").nth(1)).and_then(|x| x.trim().parse().ok());
        let aborted_cleanly = o.signal == Some(6) && o.stderr.contains("memory allocation of");
        let mut nt = false;
        if o.timed_out {
            viol::report_sig(P7, "A.timeout", format!("alloc:{}:timeout", ALLOC_CTORS[ctor]), format!("{}: child timed out", what));
        } else if k == 0 {
            if o.code != Some(0) || survived.is_none() || !survived.as_ref().unwrap().contains("ok=true") {
                viol::report_sig(P7, "A.control", format!("alloc:{}:control", ALLOC_CTORS[ctor]), format!("{}: the fault-free control did not succeed: exit {:?} signal {:?} {:?}", what, o.code, o.signal, o.stdout.trim()));
            }
        } else if let Some(s) = &survived {
            // it may only survive if the call performs fewer than k allocations
            if allocs.map(|n| n >= k).unwrap_or(true) {
                viol::report_sig(P7, "A.survived", format!("alloc:{}:survived", ALLOC_CTORS[ctor]), format!("{}: the process survived although allocation #{} of the call was made to fail ({})", what, k, s));
            }
        } else if !aborted_cleanly {
            viol::report_sig(
                P7,
                "A.not-alloc-error-path",
                format!("alloc:{}:termination", ALLOC_CTORS[ctor]),
                format!("{}: expected SIGABRT through the allocation-error path; got exit {:?} signal {:?} stderr {:?}", what, o.code, o.signal, o.stderr.lines().last().unwrap_or("")),
            );
        } else {
            nt = true;
        }
        let labels = vec![if nt { "aborted-through-alloc-error-path" } else if k == 0 { "control" } else { "fewer-allocations-than-k" }];
        CaseReport { viols: viol::take(), nontrivial: nt, labels, trace: if trace { vec![format!("{} -> exit {:?} signal {:?} stdout {:?} stderr {:?}", what, o.code, o.signal, o.stdout.trim(), o.stderr.lines().last().unwrap_or(""))] } else { vec![] } }
    }
}

// ------------------------------------------------------------------------------------
// C05: overflow-adjacent lengths (child processes)
// ------------------------------------------------------------------------------------
pub const OVF_APIS: [&str; 8] = [
    "Arc::<[MaybeUninit<u8>]>::new_uninit_slice",
    "Arc::<[MaybeUninit<u64>]>::new_uninit_slice",
    "UniqueArc::<[MaybeUninit<[u8;24]>]>::new_uninit_slice",
    "UniqueArc::from_header_and_uninit_slice::<u64,u16>",
    "UniqueArc::from_header_and_uninit_slice::<[u8;24],u64>",
    "Arc::from_header_and_iter with an ExactSizeIterator claiming the length (u64 items)",
    "ThinArc::from_header_and_iter with an ExactSizeIterator claiming the length (u32 items)",
    "collect::<Arc<[u64]>>() from an iterator whose exact size_hint claims the length",
];
const OVF_SIZES: [u128; 8] = [1, 8, 24, 2, 8, 8, 4, 8];
const OVF_HDR: [u128; 8] = [0, 0, 0, 8, 24, 8, 16, 0];

struct Claim {
    claimed: usize,
    left: usize,
}
impl Iterator for Claim {
    type Item = u64;
    fn next(&mut self) -> Option<u64> {
        if self.left == 0 {
            None
        } else {
            self.left -= 1;
            Some(7)
        }
    }
    fn size_hint(&self) -> (usize, Option<usize>) {
        (self.claimed, Some(self.claimed))
    }
}
impl ExactSizeIterator for Claim {
    fn len(&self) -> usize {
        self.claimed
    }
}

pub fn ovf_len(sel: usize, k: usize, size: u128) -> usize {
    let size = size.max(1) as usize;
    match sel % 10 {
        0 => usize::MAX,
        1 => usize::MAX - k,
        2 => usize::MAX / size,
        3 => usize::MAX / size + 1 + k,
        4 => (usize::MAX / size).saturating_sub(k),
        5 => isize::MAX as usize / size,
        6 => isize::MAX as usize / size + 1 + k,
        7 => (isize::MAX as usize / size).saturating_sub(k + 8),
        8 => (isize::MAX as usize).wrapping_add(k),
        _ => (1usize << 40) + k,
    }
}

/// `tv child c05ovf <api> <len>`
pub fn ovf_child_main(api: usize, len: usize) -> ! {
    use std::io::Write;
    use std::mem::MaybeUninit;
    std::panic::set_hook(Box::new(|_| {}));
    let _ = alloc::set_track(true);
    let r = catch_unwind(AssertUnwindSafe(|| -> (usize, usize) {
        // returns (block start, observed slice length) of the handle that was produced
        match api {
            0 => {
                let a = Arc::<[MaybeUninit<u8>]>::new_uninit_slice(len);
                (a.heap_ptr() as usize, a.len())
            }
            1 => {
                let a = Arc::<[MaybeUninit<u64>]>::new_uninit_slice(len);
                (a.heap_ptr() as usize, a.len())
            }
            2 => {
                let a = UniqueArc::<[MaybeUninit<[u8; 24]>]>::new_uninit_slice(len).shareable();
                (a.heap_ptr() as usize, a.len())
            }
            3 => {
                let a = UniqueArc::<HeaderSlice<u64, [MaybeUninit<u16>]>>::from_header_and_uninit_slice(1, len).shareable();
                (a.heap_ptr() as usize, a.slice.len())
            }
            4 => {
                let a = UniqueArc::<HeaderSlice<[u8; 24], [MaybeUninit<u64>]>>::from_header_and_uninit_slice([0; 24], len).shareable();
                (a.heap_ptr() as usize, a.slice.len())
            }
            5 => {
                let a = Arc::from_header_and_iter(1u64, Claim { claimed: len, left: 3 });
                (a.heap_ptr() as usize, a.slice.len())
            }
            6 => {
                let a = ThinArc::from_header_and_iter(1u32, Claim { claimed: len, left: 3 }.map(|x| x as u32));
                (a.heap_ptr() as usize, a.slice.len())
            }
            _ => {
                let a: Arc<[u64]> = Claim { claimed: len, left: 3 }.collect();
                (a.heap_ptr() as usize, a.len())
            }
        }
    }));
    alloc::set_track(false);
    match r {
        Ok((heap, n)) => {
            let bl = alloc::block_at(heap);
            println!("SURVIVED len={} block_size={}", n, bl.map(|b| b.size as i128).unwrap_or(-1));
            let _ = std::io::stdout().flush();
            unsafe { libc::_exit(0) }
        }
        Err(_) => {
            println!("CAUGHT");
            let _ = std::io::stdout().flush();
            unsafe { libc::_exit(3) }
        }
    }
}

pub struct OverflowEngine;
impl Engine for OverflowEngine {
    fn name(&self) -> String {
        "overflow-children".into()
    }
    fn params_len(&self) -> usize {
        3
    }
    fn ops_range(&self) -> (usize, usize) {
        (0, 0)
    }
    fn run(&self, c: &ByteCase, trace: bool) -> CaseReport {
        let _ = viol::take();
        let api = pick(c.p(0), OVF_APIS.len());
        let len = ovf_len(c.p(1) as usize, (c.p(2) % 5) as usize, OVF_SIZES[api]);
        let o = child::run_self(&["child".into(), "c05ovf".into(), api.to_string(), len.to_string()], &[], Duration::from_secs(20));
        let what = format!("{} with length {:#x}", OVF_APIS[api], len);
        rt::run::trace_stream(&what);
        let need: u128 = 8 + OVF_HDR[api] + (len as u128) * OVF_SIZES[api];
        let caught = o.stdout.contains("CAUGHT") && o.code == Some(3);
        let alloc_err = o.signal == Some(6) && o.stderr.contains("memory allocation of");
        let mut nt = true;
        if o.timed_out {
            viol::report_sig(&["C05"], "O.timeout", format!("ovf:{}:timeout", OVF_APIS[api]), format!("{}: child timed out", what));
        } else if let Some(l) = o.stdout.lines().find(|l| l.starts_with("SURVIVED")) {
            let bs: i128 = l.split("block_size=").nth(1).and_then(|x| x.trim().parse().ok()).unwrap_or(-1);
            let n: u128 = l.split("len=").nth(1).and_then(|x| x.split_whitespace().next()).and_then(|x| x.parse().ok()).unwrap_or(0);
            let need_real: u128 = 8 + OVF_HDR[api] + n * OVF_SIZES[api];
            if bs < 0 || (bs as u128) < need_real {
                viol::report_sig(
                    &["C05"],
                    "O.short-block",
                    format!("ovf:{}:short-block", OVF_APIS[api]),
                    format!("{}: a handle with {} elements was returned in a block of {} bytes although {} are needed (the size computation overflowed instead of being refused)", what, n, bs, need_real),
                );
            }
            nt = false;
        } else if !(caught || alloc_err) {
            viol::report_sig(
                &["C05"],
                "O.overflow-outcome",
                format!("ovf:{}:termination", OVF_APIS[api]),
                format!("{}: expected a refusal (panic) or the allocation-error abort; got exit {:?} signal {:?} stdout {:?} stderr {:?}", what, o.code, o.signal, o.stdout.trim(), o.stderr.lines().last().unwrap_or("")),
            );
        }
        let _ = need;
        let labels = vec![if caught { "refused-with-panic" } else if alloc_err { "allocation-error-abort" } else { "other" }];
        CaseReport { viols: viol::take(), nontrivial: nt, labels, trace: if trace { vec![format!("{} -> exit {:?} signal {:?} stdout {:?}", what, o.code, o.signal, o.stdout.trim())] } else { vec![] } }
    }
}
