//! C14: comparison, ordering, hashing and formatting see through the pointer.
//!
//! Differential oracle: every operator on a pair of handles equals the same operator on the
//! plain values they hold (thin / header-slice: on the tuple (header, slice)); the operators
//! are mutually coherent; a recording Hasher sees the same stream; formatting is identical.

use std::cmp::Ordering;
use std::collections::{BTreeMap, HashMap};
use std::fmt::Debug;
use std::hash::{Hash, Hasher};
use std::marker::PhantomData;
use std::panic::{catch_unwind, AssertUnwindSafe};

use rt::case::ByteCase;
use rt::run::{CaseReport, Engine};
use rt::viol;
use triomphe::{Arc, ArcUnion, HeaderSlice, HeaderWithLength, OffsetArc, ThinArc};

const P: &[&str] = &["C14"];

pub trait Elem: Copy + PartialEq + Debug + Send + Sync + 'static {
    const NAME: &'static str;
    const LETTERS: usize;
    fn letter(i: usize) -> Self;
    fn from_raw(x: u32) -> Self;
    /// equal to itself?
    fn reflexive(&self) -> bool {
        #[allow(clippy::eq_op)]
        {
            *self == *self
        }
    }
}
impl Elem for u8 {
    const NAME: &'static str = "u8";
    const LETTERS: usize = 3;
    fn letter(i: usize) -> Self {
        i as u8
    }
    fn from_raw(x: u32) -> Self {
        x as u8
    }
}
impl Elem for f32 {
    const NAME: &'static str = "f32";
    const LETTERS: usize = 4;
    fn letter(i: usize) -> Self {
        [0.0f32, -0.0, 1.0, f32::NAN][i]
    }
    fn from_raw(x: u32) -> Self {
        f32::from_bits(x)
    }
}
/// reflexive-only: Eq + Hash + Debug, no ordering
#[derive(Clone, Copy, PartialEq, Eq, Hash, Debug)]
pub struct R(pub u8);
impl Elem for R {
    const NAME: &'static str = "EqOnly";
    const LETTERS: usize = 3;
    fn letter(i: usize) -> Self {
        R(i as u8)
    }
    fn from_raw(x: u32) -> Self {
        R(x as u8)
    }
}

#[derive(Clone, Debug)]
pub struct Val<E: Elem> {
    pub h: E,
    pub s: Vec<E>,
}

pub fn n_slices<E: Elem>() -> usize {
    let a = E::LETTERS;
    1 + a + a * a + a * a * a
}
pub fn n_values<E: Elem>() -> usize {
    E::LETTERS * n_slices::<E>()
}
pub fn slice_of<E: Elem>(mut i: usize) -> Vec<E> {
    let a = E::LETTERS;
    let mut len = 0;
    let mut block = 1;
    while i >= block {
        i -= block;
        block *= a;
        len += 1;
    }
    let mut v = vec![];
    for _ in 0..len {
        v.push(E::letter(i % a));
        i /= a;
    }
    v.reverse();
    v
}
pub fn value_of<E: Elem>(i: usize) -> Val<E> {
    let ns = n_slices::<E>();
    Val { h: E::letter(i / ns), s: slice_of::<E>(i % ns) }
}

pub const KINDS: [&str; 13] = [
    "Arc<(H,Vec<T>)>",
    "Arc<[T]>",
    "Arc<HeaderSlice<H,[T]>>",
    "Arc<HeaderSlice<HeaderWithLength<H>,[T]>>",
    "ThinArc<H,T>",
    "OffsetArc<(H,Vec<T>)>",
    "ArcBorrow<(H,Vec<T>)>",
    "ArcUnion<(H,Vec<T>),Vec<T>>",
    "HeaderSlice<H,Vec<T>>",
    "HeaderSlice<HeaderWithLength<H>,Vec<T>>",
    "HeaderWithLength<H>",
    "Arc<T>",
    "Arc<HeaderSliceWithLengthProtected<H,T>>",
];

#[derive(Default)]
struct RecHasher(Vec<u8>);
impl Hasher for RecHasher {
    fn finish(&self) -> u64 {
        0
    }
    fn write(&mut self, b: &[u8]) {
        self.0.push(b.len() as u8);
        self.0.extend_from_slice(b);
    }
}
fn stream<T: Hash + ?Sized>(t: &T) -> Vec<u8> {
    let mut h = RecHasher::default();
    t.hash(&mut h);
    h.0
}

/// "If the impl exists it must see through the pointer": autoref probes for traits a handle kind does not
/// implement today (Hash / PartialOrd on OffsetArc, ArcBorrow, ArcUnion). An impl that appears later is
/// compared with the value's own; equal handles must hash equally in any case.
pub struct OptW<'a, T: ?Sized>(pub &'a T);
pub trait NoHashImpl {
    fn opt_stream(&self) -> Option<Vec<u8>> {
        None
    }
}
impl<'a, T: ?Sized> NoHashImpl for &OptW<'a, T> {}
impl<'a, T: ?Sized + Hash> OptW<'a, T> {
    pub fn opt_stream(&self) -> Option<Vec<u8>> {
        Some(stream(self.0))
    }
}
pub trait NoPartialOrdImpl<T: ?Sized> {
    fn opt_pcmp(&self, _o: &T) -> Option<Option<Ordering>> {
        None
    }
}
impl<'a, T: ?Sized> NoPartialOrdImpl<T> for &OptW<'a, T> {}
impl<'a, T: ?Sized + PartialOrd> OptW<'a, T> {
    pub fn opt_pcmp(&self, o: &T) -> Option<Option<Ordering>> {
        Some(self.0.partial_cmp(o))
    }
}

pub trait NoDisplayImpl {
    fn opt_disp(&self) -> Option<[String; 6]> {
        None
    }
}
impl<'a, T: ?Sized> NoDisplayImpl for &OptW<'a, T> {}
/// Display renderings under several format specs (every flag must reach the value)
fn disps<T: std::fmt::Display + ?Sized>(t: &T) -> [String; 6] {
    [format!("{}", t), format!("{:>8}", t), format!("{:08.3}", t), format!("{:+}", t), format!("{:<6.1}|", t), format!("{:^9}", t)]
}
impl<'a, T: ?Sized + std::fmt::Display> OptW<'a, T> {
    pub fn opt_disp(&self) -> Option<[String; 6]> {
        Some(disps(self.0))
    }
}

/// Display is implemented by Arc only today; a Display impl that appears on another handle kind must
/// render exactly like the value under every format spec.
fn opt_display_checks(o: &Obs, bits: u32) {
    let v = f64::from(f32::from_bits(bits));
    let v = if v.is_finite() { v } else { 2.5 };
    let want = disps(&v);
    let a = Arc::new(v);
    if disps(&a) != want {
        o.fail("Display-spec", format!("Arc<f64> renders {:?}, the value {:?}", disps(&a), want));
    }
    let off = Arc::into_raw_offset(a.clone());
    let bor = a.borrow_arc();
    let u1: ArcUnion<f64, u32> = ArcUnion::from_first(a.clone());
    let uq = triomphe::UniqueArc::new(v);
    let t = ThinArc::from_header_and_slice(v, &[1u8]);
    macro_rules! one {
        ($h:expr, $n:expr) => {
            if let Some(got) = (&OptW(&$h)).opt_disp() {
                if got != want {
                    o.fail("Display-spec", format!("{} implements Display and renders {:?}, the value {:?}", $n, got, want));
                }
            }
        };
    }
    one!(off, "OffsetArc<f64>");
    one!(bor, "ArcBorrow<f64>");
    one!(u1, "ArcUnion<f64,u32>");
    one!(uq, "UniqueArc<f64>");
    let _ = &t;
}

/// Trait objects whose concrete types differ in SIZE but compare equal through a lawful `PartialEq for dyn Trait`
/// (by area): the handle's `==` / `!=` / ordering must be the values', whatever `size_of_val` says.
trait Area: Send + Sync {
    fn area(&self) -> u32;
}
struct Sq(u16);
struct Rect(u32, u32);
struct Wide([u32; 6]);
impl Area for Sq {
    fn area(&self) -> u32 {
        self.0 as u32 * self.0 as u32
    }
}
impl Area for Rect {
    fn area(&self) -> u32 {
        self.0.wrapping_mul(self.1)
    }
}
impl Area for Wide {
    fn area(&self) -> u32 {
        self.0.iter().fold(0u32, |a, b| a.wrapping_add(*b))
    }
}
impl PartialEq for dyn Area {
    fn eq(&self, o: &Self) -> bool {
        self.area() == o.area()
    }
}
impl PartialOrd for dyn Area {
    fn partial_cmp(&self, o: &Self) -> Option<Ordering> {
        self.area().partial_cmp(&o.area())
    }
}
impl Hash for dyn Area {
    fn hash<H: Hasher>(&self, h: &mut H) {
        self.area().hash(h)
    }
}

fn dyn_checks(o: &Obs, seed: u32) {
    let n = (seed % 9) as u16 + 1;
    let mk = |which: u32| -> Arc<dyn Area> {
        let area = n as u32 * n as u32;
        match which % 3 {
            0 => {
                let raw: *const Sq = Arc::into_raw(Arc::new(Sq(n)));
                unsafe { Arc::from_raw(raw as *const dyn Area) }
            }
            1 => {
                let raw: *const Rect = Arc::into_raw(Arc::new(Rect(1, area)));
                unsafe { Arc::from_raw(raw as *const dyn Area) }
            }
            _ => {
                let raw: *const Wide = Arc::into_raw(Arc::new(Wide([area, 0, 0, 0, 0, 0])));
                unsafe { Arc::from_raw(raw as *const dyn Area) }
            }
        }
    };
    for (i, j) in [(0, 1), (1, 2), (0, 2), (2, 0)] {
        let (a, b) = (mk(i), mk(j));
        let (eq, ne) = (a == b, a != b);
        if !eq || ne || (*a != *b) {
            o.fail("dyn-eq", format!("two Arc<dyn Trait> over concrete types of sizes {} and {} whose values are equal: == is {}, != is {}", std::mem::size_of_val(&*a), std::mem::size_of_val(&*b), eq, ne));
        }
        if a.partial_cmp(&b) != Some(Ordering::Equal) || a < b || a > b || !(a <= b) {
            o.fail("dyn-cmp", "Arc<dyn Trait>: partial_cmp / relational operators disagree with the equal values".to_string());
        }
        if stream(&a) != stream(&b) || stream(&a) != stream(&*a) {
            o.fail("dyn-hash", "Arc<dyn Trait>: equal values of different concrete sizes hash differently".to_string());
        }
    }
}

/// The Borrow contract (what makes `HashMap<K, _>::get(&Q)` work): if a handle type implements `Borrow<[u8]>`
/// or `Borrow<str>`, the handle and its borrowed form must agree on Hash, Eq and Ord. Arc<[u8]> / Arc<str> do
/// today; an impl that appears on another handle kind (ThinArc, OffsetArc, ...) is checked through autoref.
pub trait NoBorrowSlice {
    fn opt_borrow_slice(&self) -> Option<(Vec<u8>, Vec<u8>, Vec<u8>)> {
        None
    }
}
impl<'a, T: ?Sized> NoBorrowSlice for &OptW<'a, T> {}
impl<'a, T: ?Sized + std::borrow::Borrow<[u8]> + Hash> OptW<'a, T> {
    /// (hash stream of the handle, hash stream of the borrowed form, the borrowed bytes)
    pub fn opt_borrow_slice(&self) -> Option<(Vec<u8>, Vec<u8>, Vec<u8>)> {
        let b: &[u8] = self.0.borrow();
        Some((stream(self.0), stream(b), b.to_vec()))
    }
}
pub trait NoBorrowStr {
    fn opt_borrow_str(&self) -> Option<(Vec<u8>, Vec<u8>, String)> {
        None
    }
}
impl<'a, T: ?Sized> NoBorrowStr for &OptW<'a, T> {}
impl<'a, T: ?Sized + std::borrow::Borrow<str> + Hash> OptW<'a, T> {
    pub fn opt_borrow_str(&self) -> Option<(Vec<u8>, Vec<u8>, String)> {
        let b: &str = self.0.borrow();
        Some((stream(self.0), stream(b), b.to_string()))
    }
}

fn opt_borrow_checks(o: &Obs, bytes: &[u8]) {
    let text: String = bytes.iter().map(|b| char::from(b'a' + b % 26)).collect();
    macro_rules! slice_kind {
        ($h:expr, $n:expr) => {
            if let Some((hk, hb, got)) = (&OptW(&$h)).opt_borrow_slice() {
                if got != bytes || hk != hb {
                    o.fail("Borrow-contract", format!("{} implements Borrow<[u8]>: borrowed bytes equal {}, hash streams equal {} (a map keyed by it cannot be queried by slice)", $n, got == bytes, hk == hb));
                }
            }
        };
    }
    macro_rules! str_kind {
        ($h:expr, $n:expr) => {
            if let Some((hk, hb, got)) = (&OptW(&$h)).opt_borrow_str() {
                if got != text || hk != hb {
                    o.fail("Borrow-contract", format!("{} implements Borrow<str>: borrowed text equal {}, hash streams equal {}", $n, got == text, hk == hb));
                }
            }
        };
    }
    let a: Arc<[u8]> = Arc::from(bytes.to_vec());
    slice_kind!(a, "Arc<[u8]>");
    let t0: ThinArc<(), u8> = ThinArc::from_header_and_slice((), bytes);
    slice_kind!(t0, "ThinArc<(),u8>");
    let t1: ThinArc<u8, u8> = ThinArc::from_header_and_slice(7, bytes);
    slice_kind!(t1, "ThinArc<u8,u8>");
    let hs = Arc::from_header_and_slice((), bytes);
    slice_kind!(hs, "Arc<HeaderSlice<(),[u8]>>");
    let av: Arc<Vec<u8>> = Arc::new(bytes.to_vec());
    slice_kind!(av, "Arc<Vec<u8>>");
    let s: Arc<str> = Arc::from(text.as_str());
    str_kind!(s, "Arc<str>");
    let ss: Arc<String> = Arc::new(text.clone());
    str_kind!(ss, "Arc<String>");
    let hstr = Arc::from_header_and_str((), &text);
    str_kind!(hstr, "Arc<HeaderSlice<(),str>>");
    // and the real thing: a map keyed by the handle, queried by the borrowed form
    let mut m: std::collections::HashMap<Arc<[u8]>, u8> = std::collections::HashMap::new();
    m.insert(a.clone(), 1);
    let mut ms: std::collections::HashMap<Arc<str>, u8> = std::collections::HashMap::new();
    ms.insert(s.clone(), 1);
    let mut bt: std::collections::BTreeMap<Arc<str>, u8> = std::collections::BTreeMap::new();
    bt.insert(s.clone(), 1);
    if m.get(bytes) != Some(&1) || ms.get(text.as_str()) != Some(&1) || bt.get(text.as_str()) != Some(&1) {
        o.fail("Borrow-contract", "HashMap<Arc<[u8]>,_> / HashMap<Arc<str>,_> / BTreeMap<Arc<str>,_> lookups by the borrowed form miss a present key".to_string());
    }
}

macro_rules! opt_checks {
    ($o:expr, $a:expr, $b:expr, $eq:expr, $val_a:expr, $val_b:expr) => {{
        let (ha, hb) = ((&OptW(&$a)).opt_stream(), (&OptW(&$b)).opt_stream());
        if let (Some(ha), Some(hb)) = (&ha, &hb) {
            if $eq && ha != hb {
                $o.fail("hash-of-equal", "the handle type implements Hash, and two handles that compare equal hash differently".to_string());
            }
            if let Some(hv) = (&OptW(&$val_a)).opt_stream() {
                if *ha != hv {
                    $o.fail("hash", format!("the handle type implements Hash and feeds the hasher {:?} but the value feeds {:?}", ha, hv));
                }
            }
        }
        if let Some(pc) = (&OptW(&$a)).opt_pcmp(&$b) {
            if let Some(pv) = (&OptW(&$val_a)).opt_pcmp(&$val_b) {
                if pc != pv {
                    $o.fail("partial_cmp", format!("the handle type implements PartialOrd: handles give {:?}, values give {:?}", pc, pv));
                }
            }
        }
    }};
}

pub struct Decoded<E: Elem> {
    pub kind: usize,
    pub x: Val<E>,
    pub y: Val<E>,
    pub same_alloc: bool,
    pub rec_x: usize,
    pub rec_y: usize,
    pub second_x: bool,
    pub second_y: bool,
    pub indexed: bool,
}

pub fn decode<E: Elem>(c: &ByteCase) -> Decoded<E> {
    let kind = (c.p(0) as usize) % KINDS.len();
    let fl = c.p(1);
    let indexed = c.p(6) == 0;
    let (x, y) = if indexed {
        let xi = u16::from_le_bytes([c.p(2), c.p(3)]) as usize % n_values::<E>();
        let yi = u16::from_le_bytes([c.p(4), c.p(5)]) as usize % n_values::<E>();
        (value_of::<E>(xi), value_of::<E>(yi))
    } else {
        let hx = E::from_raw(u32::from_le_bytes([c.p(7), c.p(8), c.p(9), c.p(10)]));
        let hy = if fl & 64 != 0 { hx } else { E::from_raw(u32::from_le_bytes([c.p(11), c.p(12), c.p(13), c.p(14)])) };
        // split point: anywhere in the records (p15 scales over the whole list)
        let lx = ((c.p(15) as usize * (c.ops.len() + 1)) >> 8).min(c.ops.len());
        let sx: Vec<E> = c.ops[..lx].iter().map(|o| E::from_raw(u32::from_le_bytes(*o))).collect();
        let sy: Vec<E> = if fl & 32 != 0 { sx.clone() } else { c.ops[lx..].iter().map(|o| E::from_raw(u32::from_le_bytes(*o))).collect() };
        (Val { h: hx, s: sx }, Val { h: hy, s: sy })
    };
    let big = c.p(if indexed { 7 } else { 6 }.min(15)) as usize;
    let bump = |b: usize| -> usize {
        match b & 3 {
            1 => 1usize << 63,
            2 => usize::MAX / 2 + 7,
            3 => usize::MAX - 3,
            _ => 0,
        }
    };
    let (bx, by) = if indexed { (bump(big), bump(big >> 2)) } else { (if fl & 128 != 0 { bump(c.p(2) as usize) } else { 0 }, if fl & 128 != 0 { bump(c.p(3) as usize) } else { 0 }) };
    let rec_x = (x.s.len() + (fl as usize >> 1 & 1)).wrapping_add(bx);
    let rec_y = (y.s.len() + (fl as usize >> 2 & 1)).wrapping_add(by);
    Decoded { kind, same_alloc: fl & 1 != 0, rec_x, rec_y, second_x: fl & 8 != 0, second_y: fl & 16 != 0, x, y, indexed }
}

struct Obs {
    kind: &'static str,
    class: String,
}
impl Obs {
    fn fail(&self, op: &str, detail: String) {
        let sig = format!("{}.{}:{}", self.kind, op, self.class);
        viol::report_sig(P, "E.diff", sig, format!("{} {} [{}]: {}", self.kind, op, self.class, detail));
    }
}

/// Debug renderings under several format specs (the spec must reach the value)
fn dbgs<T: Debug + ?Sized>(t: &T) -> [String; 6] {
    [format!("{:?}", t), format!("{:#?}", t), format!("{:7?}", t), format!("{:+?}", t), format!("{:#x?}", t), format!("{:<9.2?}|", t)]
}

#[derive(Debug)]
enum UnionRef<A, B> {
    First(A),
    Second(B),
}

/// eq / ne / Debug on a pair of handles `a`,`b` against reference verdict and formatting
macro_rules! check_eq {
    ($o:expr, $a:expr, $b:expr, $eq_ref:expr, $licence:expr, $dbg_ref_a:expr) => {{
        let (a, b) = (&$a, &$b);
        let eq = a == b;
        let ne = a != b;
        if eq == ne {
            $o.fail("ne-vs-eq", format!("== is {} and != is {}", eq, ne));
        }
        if !$licence && eq != $eq_ref {
            $o.fail("eq", format!("handles compare == {} but the values compare == {}", eq, $eq_ref));
        }
        let d = format!("{:?}", a);
        if d != $dbg_ref_a {
            $o.fail("Debug", format!("handle formats as {:?} but the value formats as {:?}", d, $dbg_ref_a));
        }
        eq
    }};
}

macro_rules! check_partial {
    ($o:expr, $a:expr, $b:expr, $pref:expr, $licence:expr, $eq:expr) => {{
        let (a, b) = (&$a, &$b);
        let pc = a.partial_cmp(b);
        let (lt, le, gt, ge) = (a < b, a <= b, a > b, a >= b);
        let r: Option<Ordering> = $pref;
        if pc != r {
            $o.fail("partial_cmp", format!("handles give {:?}, values give {:?}", pc, r));
        }
        let want = (r == Some(Ordering::Less), matches!(r, Some(Ordering::Less | Ordering::Equal)), r == Some(Ordering::Greater), matches!(r, Some(Ordering::Greater | Ordering::Equal)));
        if (lt, le, gt, ge) != want {
            $o.fail("relational", format!("(<,<=,>,>=) = {:?} on handles but {:?} on values", (lt, le, gt, ge), want));
        }
        // coherence among the handle's own operators
        if !$licence && $eq != (pc == Some(Ordering::Equal)) {
            $o.fail("cmp-vs-eq", format!("== is {} but partial_cmp is {:?}", $eq, pc));
        }
        pc
    }};
}

macro_rules! check_total {
    ($o:expr, $a:expr, $b:expr, $cref:expr, $pc:expr) => {{
        let c = $a.cmp(&$b);
        if c != $cref {
            $o.fail("cmp", format!("handles give {:?}, values give {:?}", c, $cref));
        }
        if Some(c) != $pc {
            $o.fail("cmp-vs-partial_cmp", format!("cmp {:?} but partial_cmp {:?}", c, $pc));
        }
    }};
}

macro_rules! check_hash {
    ($o:expr, $a:expr, $b:expr, $ref_a:expr, $eq:expr) => {{
        let sa = stream(&$a);
        if sa != $ref_a {
            $o.fail("hash", format!("the handle feeds the hasher {:?} but the value feeds {:?}", sa, $ref_a));
        }
        if $eq && sa != stream(&$b) {
            $o.fail("hash-of-equal", "two handles that compare equal hash differently".to_string());
        }
    }};
}

/// The capabilities of an element class.
pub trait Class<E: Elem>: 'static + Send + Sync {
    fn partial(_x: &Val<E>, _y: &Val<E>) -> bool {
        false
    }
    fn run(d: &Decoded<E>, o: &Obs);
}

type T2<E> = (E, Vec<E>);

fn tuple<E: Elem>(v: &Val<E>) -> T2<E> {
    (v.h, v.s.clone())
}

fn refl<E: Elem>(v: &Val<E>) -> bool {
    v.h.reflexive() && v.s.iter().all(|e| e.reflexive())
}

macro_rules! class_impl {
    ($cls:ident, $e:ty, partial = $partial:tt, total = $total:tt, hash = $hash:tt, display = $display:tt) => {
        pub struct $cls;
        impl Class<$e> for $cls {
            fn run(d: &Decoded<$e>, o: &Obs) {
                type E = $e;
                let (x, y) = (&d.x, &d.y);
                let tx: T2<E> = tuple(x);
                let ty: T2<E> = tuple(y);
                // reference verdicts on plain values
                let eq_t = tx == ty;
                let eq_s = x.s == y.s;
                let same_ok = d.same_alloc && eq_bits(x, y);
                // licence: same allocation and the value is not equal to itself
                let lic = same_ok && !refl(x);
                match d.kind {
                    0 => {
                        let a = Arc::new(tx.clone());
                        let b = if same_ok { a.clone() } else { Arc::new(ty.clone()) };
                        let eq = check_eq!(o, a, b, eq_t, lic, format!("{:?}", tx));
                        let _ = eq;
                        if dbgs(&a) != dbgs(&tx) {
                            o.fail("Debug-spec", format!("{:?} vs {:?}", dbgs(&a), dbgs(&tx)));
                        }
                        class_impl!(@partial $partial, o, a, b, tx.partial_cmp(&ty), lic, eq);
                        class_impl!(@total $total, o, a, b, tx, ty);
                        class_impl!(@hash $hash, o, a, b, stream(&tx), eq);
                        class_impl!(@hashslice $hash, o, a, b);
                        class_impl!(@maps $total, $hash, o, a, tx, ty, eq_t);
                        class_impl!(@maxmin $total, o, a, b, tx, ty);
                        if format!("{:#?}", a) != format!("{:#?}", tx) {
                            o.fail("Debug-alternate", "{:#?} differs between handle and value".into());
                        }
                    }
                    1 => {
                        let a: Arc<[E]> = Arc::from(x.s.clone());
                        let b: Arc<[E]> = if same_ok { a.clone() } else { Arc::from(y.s.clone()) };
                        let lic = same_ok && !x.s.iter().all(|e| e.reflexive());
                        let eq = check_eq!(o, a, b, eq_s, lic, format!("{:?}", &x.s[..]));
                        let _ = eq;
                        if dbgs(&a) != dbgs(&x.s[..]) {
                            o.fail("Debug-spec", format!("{:?} vs {:?}", dbgs(&a), dbgs(&x.s[..])));
                        }
                        class_impl!(@partial $partial, o, a, b, x.s[..].partial_cmp(&y.s[..]), lic, eq);
                        class_impl!(@total $total, o, a, b, x.s[..], y.s[..]);
                        class_impl!(@hash $hash, o, a, b, stream(&x.s[..]), eq);
                        class_impl!(@hashslice $hash, o, a, b);
                    }
                    2 => {
                        let a = Arc::from_header_and_slice(x.h, &x.s);
                        let b = if same_ok { a.clone() } else { Arc::from_header_and_slice(y.h, &y.s) };
                        let bare = HeaderSlice { header: x.h, slice: &x.s[..] };
                        let eq = check_eq!(o, a, b, eq_t, lic, format!("{:?}", bare));
                        let _ = eq;
                        if dbgs(&a) != dbgs(&bare) {
                            o.fail("Debug-spec", format!("{:?} vs {:?}", dbgs(&a), dbgs(&bare)));
                        }
                        class_impl!(@partial $partial, o, a, b, (x.h, &x.s[..]).partial_cmp(&(y.h, &y.s[..])), lic, eq);
                        class_impl!(@total $total, o, a, b, (x.h, &x.s[..]), (y.h, &y.s[..]));
                        class_impl!(@hash $hash, o, a, b, stream(&(x.h, &x.s[..])), eq);
                        class_impl!(@hashslice $hash, o, a, b);
                    }
                    3 | 9 => {
                        // recorded length may disagree with the slice length (publicly constructible)
                        let eq_ref = eq_t && d.rec_x == d.rec_y;
                        let class_extra = if d.rec_x != d.rec_y && eq_t { "recorded-length-differs" } else { "" };
                        let o2 = Obs { kind: o.kind, class: if class_extra.is_empty() { o.class.clone() } else { class_extra.to_string() } };
                        let o = &o2;
                        if d.kind == 3 {
                            let a = Arc::from_header_and_slice(HeaderWithLength::new(x.h, d.rec_x), &x.s);
                            let b = if same_ok && d.rec_x == d.rec_y { a.clone() } else { Arc::from_header_and_slice(HeaderWithLength::new(y.h, d.rec_y), &y.s) };
                            let bare = HeaderSlice { header: HeaderWithLength::new(x.h, d.rec_x), slice: &x.s[..] };
                            let eq = check_eq!(o, a, b, eq_ref, lic, format!("{:?}", bare));
                            let _ = eq;
                            // ordering: header then slice; must stay coherent with ==
                            class_impl!(@partial_hwl $partial, o, a, b, (x.h, &x.s[..]).partial_cmp(&(y.h, &y.s[..])), lic, eq, d.rec_x == d.rec_y);
                            class_impl!(@total_hwl $total, o, a, b, (x.h, &x.s[..]), (y.h, &y.s[..]), d.rec_x == d.rec_y);
                            class_impl!(@hash $hash, o, a, b, stream(&bare), eq);
                            class_impl!(@hashslice $hash, o, a, b);
                        } else {
                            let a = HeaderSlice { header: HeaderWithLength::new(x.h, d.rec_x), slice: x.s.clone() };
                            let b = HeaderSlice { header: HeaderWithLength::new(y.h, d.rec_y), slice: y.s.clone() };
                            let eq = a == b;
                            if eq == (a != b) {
                                o.fail("ne-vs-eq", "== and != agree".into());
                            }
                            if eq != eq_ref {
                                o.fail("eq", format!("== {} but fields compare == {}", eq, eq_ref));
                            }
                            class_impl!(@partial_hwl $partial, o, a, b, (x.h, &x.s).partial_cmp(&(y.h, &y.s)), false, eq, d.rec_x == d.rec_y);
                            class_impl!(@total_hwl $total, o, a, b, (x.h, &x.s), (y.h, &y.s), d.rec_x == d.rec_y);
                        }
                    }
                    4 => {
                        let a = ThinArc::from_header_and_slice(x.h, &x.s);
                        let b = if same_ok { a.clone() } else { ThinArc::from_header_and_slice(y.h, &y.s) };
                        let bare = HeaderSlice { header: HeaderWithLength::new(x.h, x.s.len()), slice: &x.s[..] };
                        let eq = check_eq!(o, a, b, eq_t, lic, format!("{:?}", bare));
                        let _ = eq;
                        if dbgs(&a) != dbgs(&bare) {
                            o.fail("Debug-spec", format!("{:?} vs {:?}", dbgs(&a), dbgs(&bare)));
                        }
                        class_impl!(@partial $partial, o, a, b, (x.h, &x.s[..]).partial_cmp(&(y.h, &y.s[..])), lic, eq);
                        class_impl!(@total $total, o, a, b, (x.h, &x.s[..]), (y.h, &y.s[..]));
                        class_impl!(@hash $hash, o, a, b, stream(&bare), eq);
                        class_impl!(@hashslice $hash, o, a, b);
                    }
                    5 => {
                        let a = Arc::into_raw_offset(Arc::new(tx.clone()));
                        let b = if same_ok { a.clone() } else { Arc::into_raw_offset(Arc::new(ty.clone())) };
                        let eq5 = check_eq!(o, a, b, eq_t, lic, format!("{:?}", tx));
                        if dbgs(&a) != dbgs(&tx) {
                            o.fail("Debug-spec", format!("{:?} vs {:?}", dbgs(&a), dbgs(&tx)));
                        }
                        opt_checks!(o, a, b, eq5, tx, ty);
                        opt_display_checks(o, (d.x.s.len() as u32).wrapping_mul(0x3f9e_3779) ^ 0x4020_0000);
                        opt_borrow_checks(o, &d.x.s.iter().map(|e| e.to_bits_() as u8).collect::<Vec<u8>>());
                        dyn_checks(o, d.x.s.len() as u32 + d.y.s.len() as u32);
                    }
                    6 => {
                        let aa = Arc::new(tx.clone());
                        let bb = if same_ok { aa.clone() } else { Arc::new(ty.clone()) };
                        let (a, b) = (aa.borrow_arc(), bb.borrow_arc());
                        let class = if !same_ok && eq_t { "equal-values-distinct-allocations" } else if same_ok { "same-allocation" } else { "different-values" };
                        let o2 = Obs { kind: o.kind, class: class.to_string() };
                        let eq6 = check_eq!(&o2, a, b, eq_t, lic, format!("{:?}", tx));
                        if dbgs(&a) != dbgs(&tx) {
                            Obs { kind: o.kind, class: "any".into() }.fail("Debug-spec", format!("{:?} vs {:?}", dbgs(&a), dbgs(&tx)));
                        }
                        opt_checks!(&o2, a, b, eq6, tx, ty);
                    }
                    7 => {
                        type U<E> = ArcUnion<T2<E>, Vec<E>>;
                        let mk = |second: bool, v: &Val<E>| -> U<E> { if second { ArcUnion::from_second(Arc::new(v.s.clone())) } else { ArcUnion::from_first(Arc::new(tuple(v))) } };
                        let a = mk(d.second_x, x);
                        let b = if same_ok && d.second_x == d.second_y { a.clone() } else { mk(d.second_y, y) };
                        let eq_ref = if d.second_x != d.second_y { false } else if d.second_x { eq_s } else { eq_t };
                        let lic = same_ok && d.second_x == d.second_y && (if d.second_x { !x.s.iter().all(|e| e.reflexive()) } else { !refl(x) });
                        let class = if d.second_x != d.second_y {
                            "different-variants"
                        } else if !same_ok && eq_ref {
                            "equal-values-distinct-allocations"
                        } else {
                            "other"
                        };
                        let o2 = Obs { kind: o.kind, class: class.to_string() };
                        let eq = a == b;
                        if eq == (a != b) {
                            o2.fail("ne-vs-eq", "== and != agree".into());
                        }
                        if !lic && eq != eq_ref {
                            o2.fail("eq", format!("unions compare == {} but the values they hold compare == {}", eq, eq_ref));
                        }
                        // Debug: the bare value or the documented-equivalent enum's rendering
                        let dv = if d.second_x { format!("{:?}", x.s) } else { format!("{:?}", tx) };
                        let de = if d.second_x { format!("Second({:?})", x.s) } else { format!("First({:?})", tx) };
                        let got = format!("{:?}", a);
                        if got != dv && got != de {
                            Obs { kind: o.kind, class: "any".into() }.fail("Debug", format!("union formats as {:?}; expected {:?} or {:?}", got, dv, de));
                        }
                        // every format spec must reach the value (bare value or the equivalent enum's rendering)
                        let (rv, re) = if d.second_x { (dbgs(&x.s), dbgs(&UnionRef::<T2<E>, &Vec<E>>::Second(&x.s))) } else { (dbgs(&tx), dbgs(&UnionRef::<&T2<E>, Vec<E>>::First(&tx))) };
                        let g = dbgs(&a);
                        if g != rv && g != re {
                            Obs { kind: o.kind, class: "any".into() }.fail("Debug-spec", format!("union formats as {:?}; expected {:?} or {:?}", g, rv, re));
                        }
                        // a Hash impl that appears must at least hash equal unions equally
                        if let (Some(ha), Some(hb)) = ((&OptW(&a)).opt_stream(), (&OptW(&b)).opt_stream()) {
                            if eq && ha != hb {
                                o2.fail("hash-of-equal", "ArcUnion implements Hash, and two unions that compare equal hash differently".to_string());
                            }
                        }
                    }
                    8 => {
                        let a = HeaderSlice { header: x.h, slice: x.s.clone() };
                        let b = HeaderSlice { header: y.h, slice: y.s.clone() };
                        let eq = a == b;
                        if eq != eq_t || eq == (a != b) {
                            o.fail("eq", format!("== {} but fields compare == {}", eq, eq_t));
                        }
                        class_impl!(@partial $partial, o, a, b, (x.h, &x.s).partial_cmp(&(y.h, &y.s)), false, eq);
                        class_impl!(@total $total, o, a, b, (x.h, &x.s), (y.h, &y.s));
                        class_impl!(@hash $hash, o, a, b, stream(&(x.h, &x.s)), eq);
                    }
                    10 => {
                        let a = HeaderWithLength::new(x.h, d.rec_x);
                        let b = HeaderWithLength::new(y.h, d.rec_y);
                        let eq = a == b;
                        let want = x.h == y.h && d.rec_x == d.rec_y;
                        if eq != want || eq == (a != b) {
                            o.fail("eq", format!("== {} but fields compare == {}", eq, want));
                        }
                        class_impl!(@hash $hash, o, a, b, stream(&(x.h, d.rec_x)), eq);
                    }
                    11 => {
                        let a = Arc::new(x.h);
                        let b = if d.same_alloc && x.h.to_bits_() == y.h.to_bits_() { a.clone() } else { Arc::new(y.h) };
                        let same = Arc::ptr_eq(&a, &b);
                        let lic = same && !x.h.reflexive();
                        let eq = check_eq!(o, a, b, x.h == y.h, lic, format!("{:?}", x.h));
                        let _ = eq;
                        class_impl!(@partial $partial, o, a, b, x.h.partial_cmp(&y.h), lic, eq);
                        class_impl!(@total $total, o, a, b, x.h, y.h);
                        class_impl!(@hash $hash, o, a, b, stream(&x.h), eq);
                        class_impl!(@hashslice $hash, o, a, b);
                        class_impl!(@display $display, o, a, x.h);
                    }
                    _ => {
                        let a = Arc::protected_from_thin(ThinArc::from_header_and_slice(x.h, &x.s));
                        let b = if same_ok { a.clone() } else { Arc::protected_from_thin(ThinArc::from_header_and_slice(y.h, &y.s)) };
                        let eq = a == b;
                        if eq == (a != b) {
                            o.fail("ne-vs-eq", "== and != agree".into());
                        }
                        if !lic && eq != eq_t {
                            o.fail("eq", format!("handles compare == {} but the values compare == {}", eq, eq_t));
                        }
                        class_impl!(@partial $partial, o, a, b, (x.h, &x.s[..]).partial_cmp(&(y.h, &y.s[..])), lic, eq);
                        class_impl!(@total $total, o, a, b, (x.h, &x.s[..]), (y.h, &y.s[..]));
                    }
                }
            }
        }
    };
    (@partial yes, $o:expr, $a:expr, $b:expr, $pref:expr, $lic:expr, $eq:expr) => {
        let _pc = check_partial!($o, $a, $b, $pref, $lic, $eq);
    };
    (@partial no, $o:expr, $a:expr, $b:expr, $pref:expr, $lic:expr, $eq:expr) => {};
    (@partial_hwl yes, $o:expr, $a:expr, $b:expr, $pref:expr, $lic:expr, $eq:expr, $same_rec:expr) => {
        // with equal recorded lengths: differential against (header, slice); always: coherent with ==
        let pc = $a.partial_cmp(&$b);
        if $same_rec {
            let r: Option<Ordering> = $pref;
            if pc != r {
                $o.fail("partial_cmp", format!("handles give {:?}, (header, slice) gives {:?}", pc, r));
            }
        }
        if !$lic && $eq != (pc == Some(Ordering::Equal)) {
            $o.fail("cmp-vs-eq", format!("== is {} but partial_cmp is {:?}", $eq, pc));
        }
        let (lt, le, gt, ge) = ($a < $b, $a <= $b, $a > $b, $a >= $b);
        let want = (pc == Some(Ordering::Less), matches!(pc, Some(Ordering::Less | Ordering::Equal)), pc == Some(Ordering::Greater), matches!(pc, Some(Ordering::Greater | Ordering::Equal)));
        if (lt, le, gt, ge) != want {
            $o.fail("relational-vs-partial_cmp", format!("(<,<=,>,>=) = {:?} but partial_cmp = {:?}", (lt, le, gt, ge), pc));
        }
    };
    (@partial_hwl no, $o:expr, $a:expr, $b:expr, $pref:expr, $lic:expr, $eq:expr, $same_rec:expr) => {};
    (@total yes, $o:expr, $a:expr, $b:expr, $rx:expr, $ry:expr) => {
        check_total!($o, $a, $b, $rx.cmp(&$ry), $a.partial_cmp(&$b));
        if $b.cmp(&$a) != $a.cmp(&$b).reverse() {
            $o.fail("cmp-antisymmetry", format!("cmp(a,b) is {:?} but cmp(b,a) is {:?}", $a.cmp(&$b), $b.cmp(&$a)));
        }
    };
    (@total no, $o:expr, $a:expr, $b:expr, $rx:expr, $ry:expr) => {};
    (@total_hwl yes, $o:expr, $a:expr, $b:expr, $rx:expr, $ry:expr, $same_rec:expr) => {
        let c = $a.cmp(&$b);
        if $same_rec && c != $rx.cmp(&$ry) {
            $o.fail("cmp", format!("handles give {:?}, (header, slice) gives {:?}", c, $rx.cmp(&$ry)));
        }
        if Some(c) != $a.partial_cmp(&$b) {
            $o.fail("cmp-vs-partial_cmp", format!("cmp {:?} but partial_cmp {:?}", c, $a.partial_cmp(&$b)));
        }
        if ($a == $b) != (c == Ordering::Equal) {
            $o.fail("cmp-vs-eq", format!("== is {} but cmp is {:?}", $a == $b, c));
        }
        if $b.cmp(&$a) != c.reverse() || $b.partial_cmp(&$a) != Some(c.reverse()) {
            $o.fail("cmp-antisymmetry", format!("cmp(a,b) is {:?} but cmp(b,a) is {:?}", c, $b.cmp(&$a)));
        }
    };
    (@total_hwl no, $o:expr, $a:expr, $b:expr, $rx:expr, $ry:expr, $same_rec:expr) => {};
    (@maxmin yes, $o:expr, $a:expr, $b:expr, $tx:expr, $ty:expr) => {
        // Ord::max / min / clamp on handles: the same value as on the plain values, and the documented
        // tie rule (max returns the second argument, min the first) observable through ptr_eq
        let (ha, hb) = ($a.clone(), $b.clone());
        let mx = std::cmp::Ord::max(ha.clone(), hb.clone());
        let mn = std::cmp::Ord::min(ha.clone(), hb.clone());
        let vmx = std::cmp::Ord::max($tx.clone(), $ty.clone());
        let vmn = std::cmp::Ord::min($tx.clone(), $ty.clone());
        if *mx != vmx || *mn != vmn {
            $o.fail("max-min", format!("max/min of handles hold {:?}/{:?}, of values {:?}/{:?}", *mx, *mn, vmx, vmn));
        }
        if $tx.cmp(&$ty) == Ordering::Equal && !Arc::ptr_eq(&ha, &hb) {
            if !Arc::ptr_eq(&mx, &hb) || !Arc::ptr_eq(&mn, &ha) {
                $o.fail("max-min-tie", "on a tie Ord::max must return the second argument and Ord::min the first".to_string());
            }
        }
        let cl = ha.clone().clamp(std::cmp::Ord::min(ha.clone(), hb.clone()), std::cmp::Ord::max(ha.clone(), hb.clone()));
        if *cl != $tx.clone().clamp(std::cmp::Ord::min($tx.clone(), $ty.clone()), std::cmp::Ord::max($tx.clone(), $ty.clone())) {
            $o.fail("clamp", "clamp of handles differs from clamp of values".to_string());
        }
    };
    (@maxmin no, $o:expr, $a:expr, $b:expr, $tx:expr, $ty:expr) => {};
    (@hashslice yes, $o:expr, $a:expr, $b:expr) => {{
        // a slice / Vec / array of handles hashes like any slice: length prefix, then every element's own stream
        // (Hash::hash_slice is a provided method a handle type may override)
        let mut want = RecHasher::default();
        want.write_usize(3);
        $a.hash(&mut want);
        $a.hash(&mut want);
        $b.hash(&mut want);
        let got = stream(&[$a.clone(), $a.clone(), $b.clone()][..]);
        if got != want.0 {
            $o.fail("hash-slice", format!("a slice of three handles (one allocation twice, then another handle) feeds the hasher {:?}; the length prefix plus the three handles' own streams are {:?}", got, want.0));
        }
        let got_v = stream(&vec![$b.clone(), $a.clone()]);
        let mut want_v = RecHasher::default();
        want_v.write_usize(2);
        $b.hash(&mut want_v);
        $a.hash(&mut want_v);
        if got_v != want_v.0 {
            $o.fail("hash-slice", "a Vec of two handles does not hash as length prefix + elements".to_string());
        }
    }};
    (@hashslice no, $o:expr, $a:expr, $b:expr) => {};
    (@hash yes, $o:expr, $a:expr, $b:expr, $ref_a:expr, $eq:expr) => {
        check_hash!($o, $a, $b, $ref_a, $eq);
    };
    (@hash no, $o:expr, $a:expr, $b:expr, $ref_a:expr, $eq:expr) => {};
    (@maps yes, yes, $o:expr, $a:expr, $tx:expr, $ty:expr, $eq:expr) => {
        let mut hm: HashMap<Arc<T2<E>>, u8> = HashMap::new();
        hm.insert($a.clone(), 1);
        if hm.get(&$ty).is_some() != $eq || hm.get(&$tx).is_none() {
            $o.fail("HashMap-Borrow", "HashMap keyed by Arc<T> probed with &T answers wrongly".into());
        }
        let mut bm: BTreeMap<Arc<T2<E>>, u8> = BTreeMap::new();
        bm.insert($a.clone(), 1);
        if bm.get(&$ty).is_some() != $eq || bm.get(&$tx).is_none() {
            $o.fail("BTreeMap-Borrow", "BTreeMap keyed by Arc<T> probed with &T answers wrongly".into());
        }
    };
    (@maps $t:tt, $h:tt, $o:expr, $a:expr, $tx:expr, $ty:expr, $eq:expr) => {};
    (@display yes, $o:expr, $a:expr, $v:expr) => {
        let pairs = [
            (format!("{}", $a), format!("{}", $v)),
            (format!("{:>8}", $a), format!("{:>8}", $v)),
            (format!("{:<6}|", $a), format!("{:<6}|", $v)),
            (format!("{:08.3}", $a), format!("{:08.3}", $v)),
            (format!("{:+}", $a), format!("{:+}", $v)),
            (format!("{:#?}", $a), format!("{:#?}", $v)),
        ];
        for (h, v) in pairs.iter() {
            if h != v {
                $o.fail("Display", format!("handle formats as {:?} but the value as {:?}", h, v));
            }
        }
    };
    (@display no, $o:expr, $a:expr, $v:expr) => {};
}

trait Bits {
    fn to_bits_(&self) -> u32;
}
impl Bits for u8 {
    fn to_bits_(&self) -> u32 {
        *self as u32
    }
}
impl Bits for f32 {
    fn to_bits_(&self) -> u32 {
        self.to_bits()
    }
}
impl Bits for R {
    fn to_bits_(&self) -> u32 {
        self.0 as u32
    }
}
/// structurally identical (so that one allocation can stand for both)
fn eq_bits<E: Elem + Bits>(x: &Val<E>, y: &Val<E>) -> bool {
    x.h.to_bits_() == y.h.to_bits_() && x.s.len() == y.s.len() && x.s.iter().zip(y.s.iter()).all(|(a, b)| a.to_bits_() == b.to_bits_())
}

class_impl!(OrdClass, u8, partial = yes, total = yes, hash = yes, display = yes);
class_impl!(PartialClass, f32, partial = yes, total = no, hash = no, display = yes);
class_impl!(EqClass, R, partial = no, total = no, hash = yes, display = no);

pub struct CmpEngine<E: Elem, C: Class<E>> {
    pub exhaustive: bool,
    _p: PhantomData<fn() -> (E, C)>,
}

impl<E: Elem, C: Class<E>> CmpEngine<E, C> {
    pub fn new(exhaustive: bool) -> Self {
        CmpEngine { exhaustive, _p: PhantomData }
    }
}

impl<E: Elem + Bits, C: Class<E>> Engine for CmpEngine<E, C> {
    fn name(&self) -> String {
        format!("cmp<{}>/{}", E::NAME, if self.exhaustive { "exhaustive" } else { "random" })
    }
    fn params_len(&self) -> usize {
        16
    }
    fn ops_range(&self) -> (usize, usize) {
        // random part: slices well beyond 256 elements (a bounded-prefix comparison or a length hashed
        // through a narrow integer shows only there)
        (0, 640)
    }
    fn enum_len(&self) -> Option<u64> {
        if !self.exhaustive {
            return None;
        }
        let n = n_values::<E>() as u64;
        Some(KINDS.len() as u64 * n * n * 10)
    }
    fn enum_at(&self, i: u64) -> Option<ByteCase> {
        let n = n_values::<E>() as u64;
        let fv = (i % 10) as usize;
        let yi = ((i / 10) % n) as usize;
        let xi = ((i / 10 / n) % n) as usize;
        let kind = (i / 10 / n / n) as usize;
        let ns = n_slices::<E>();
        // kinds that ignore part of the value get the sub-domain only
        if kind == 1 && (xi / ns != 0 || yi / ns != 0) {
            return None;
        }
        if (kind == 10 || kind == 11) && (xi % ns != 0 || yi % ns != 0) {
            return None;
        }
        // flag variants: distinct allocations always; the same allocation when identical;
        // recorded-length variants for the HeaderWithLength kinds; variant choices for the union
        let mut flags: Vec<u8> = vec![0];
        if xi == yi {
            flags.push(1);
        }
        if kind == 3 || kind == 9 || kind == 10 {
            flags.extend_from_slice(&[2, 4, 6]);
        }
        if kind == 7 {
            flags.extend_from_slice(&[8, 16, 24]);
            if xi == yi {
                flags.push(25);
            }
        }
        // recorded lengths far apart (2^63, usize::MAX/2+7, usize::MAX-3 added to one or both sides)
        let mut bigs: Vec<u8> = vec![0; flags.len()];
        if kind == 3 || kind == 9 || kind == 10 {
            for b in [1u8, 4, 2 | 12, 3, 1 | 8] {
                flags.push(0);
                bigs.push(b);
            }
        }
        let fl = *flags.get(fv)?;
        let big = bigs[fv];
        let (xb, yb) = ((xi as u16).to_le_bytes(), (yi as u16).to_le_bytes());
        Some(ByteCase { params: vec![kind as u8, fl, xb[0], xb[1], yb[0], yb[1], 0, big, 0, 0, 0, 0, 0, 0, 0, 0], ops: vec![] })
    }
    fn run(&self, c: &ByteCase, trace: bool) -> CaseReport {
        let _ = viol::take();
        let mut c2;
        let c = if !self.exhaustive && c.p(6) == 0 {
            c2 = c.clone();
            if c2.params.len() > 6 {
                c2.params[6] = 1;
            }
            &c2
        } else {
            c
        };
        let d = decode::<E>(c);
        let class = if d.same_alloc && eq_bits(&d.x, &d.y) {
            "same-allocation"
        } else if d.x.h == d.y.h && d.x.s == d.y.s {
            "equal-values-distinct-allocations"
        } else {
            "different-values"
        };
        let o = Obs { kind: KINDS[d.kind], class: class.to_string() };
        let r = catch_unwind(AssertUnwindSafe(|| C::run(&d, &o)));
        if r.is_err() {
            viol::report_sig(P, "E.panic", format!("{}.panic", KINDS[d.kind]), "comparison panicked".into());
        }
        let has_nan = !refl(&d.x) || !refl(&d.y);
        let nontrivial = class == "equal-values-distinct-allocations" || d.rec_x != d.x.s.len() || d.rec_y != d.y.s.len() || has_nan || !(d.kind == 0 || d.kind == 4);
        let mut labels: Vec<&'static str> = vec![KINDS[d.kind], class];
        if has_nan {
            labels.push("value-not-equal-to-itself");
        }
        if d.rec_x != d.rec_y {
            labels.push("recorded-lengths-differ");
        }
        let tr = if trace { vec![format!("{} : x={:?} (recorded {}) y={:?} (recorded {}) placement={} variants=({},{})", KINDS[d.kind], d.x, d.rec_x, d.y, d.rec_y, class, d.second_x, d.second_y)] } else { vec![] };
        let _ = d.indexed;
        CaseReport { viols: viol::take(), nontrivial, labels, trace: tr }
    }
}

pub fn engines(exhaustive: bool) -> Vec<Box<dyn Engine>> {
    vec![
        Box::new(CmpEngine::<u8, OrdClass>::new(exhaustive)),
        Box::new(CmpEngine::<f32, PartialClass>::new(exhaustive)),
        Box::new(CmpEngine::<R, EqClass>::new(exhaustive)),
    ]
}

#[allow(dead_code)]
fn _unused() {
    let _ = OffsetArc::<u8>::strong_count;
}
