#!/bin/bash
# offline warm build of every flavour (MANIFEST.setup_cmd)
set -e
cd "$(dirname "$0")"
./check build
