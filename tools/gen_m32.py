#!/usr/bin/env python3
"""Regenerates harness/m32/src/main.rs (the 32-bit C16 child run under Miri for i686) from the entry table of
harness/eng/src/c16.rs, replacing the shim-based address learning by heap_ptr of an Arc view."""
import os
ROOT = os.path.dirname(os.path.dirname(os.path.abspath(__file__)))
src = open(os.path.join(ROOT, "harness/eng/src/c16.rs")).read()
i = src.index('pub fn child_main(entry: usize, start: usize) -> ! {')
j = src.index('pub struct C16Engine')
body = src[i:j]
body = body.replace('pub fn child_main(entry: usize, start: usize) -> ! {', 'fn child_main(entry: usize, start: usize) -> ! {')
body = body.replace('    sim::set_check_live(false);\n', '')
body = body.replace('unsafe { libc::_exit(0) }', 'std::process::exit(0)').replace('unsafe { libc::_exit(3) }', 'std::process::exit(3)')
body = body.replace('#[cfg(feature = "arc-swap")]\n', '').replace('#[cfg(not(feature = "arc-swap"))]', '#[cfg(any())]')
body = body.replace('Arc::into_raw_offset(Arc::new(3u64))', 'Arc::into_raw_offset(note(Arc::new(3u64)))')
body = body.replace('ArcUnion::from_first(Arc::new(1u64))', 'ArcUnion::from_first(note(Arc::new(1u64)))')
body = body.replace('ArcUnion::from_second(Arc::new(1u8))', 'ArcUnion::from_second(note(Arc::new(1u8)))')
cur = open(os.path.join(ROOT, "harness/m32/src/main.rs")).read()
head = cur[:cur.index('fn child_main(')]
tail = cur[cur.index('\nfn main() {'):]
open(os.path.join(ROOT, "harness/m32/src/main.rs"), "w").write(head + body + tail)
print("regenerated harness/m32/src/main.rs")
