#!/bin/bash
# tools/run_seeded.sh [tier] : apply every seeded change in seeded/*/patch.diff to /repo in turn, run the check of the
# property it breaks, undo it, and write seeded/RESULTS.md (which checks catch which changes).
set -u
REPO="${VERIF_REPO:-/repo}"
cd "$(dirname "$0")/.."
TIER="${1:-quick}"
OUT=seeded/RESULTS.md
# SHARD=i/n : only every n-th seed starting at i, results to seeded/RESULTS.shard<i>.md (merged by tools/merge_shards.py)
SH_I=""; SH_N=1
if [ -n "${SHARD:-}" ]; then SH_I="${SHARD%%/*}"; SH_N="${SHARD##*/}"; OUT="seeded/RESULTS.shard$SH_I.md"; fi
git -C "$REPO" diff --quiet || { echo "/repo is dirty"; exit 2; }
{
echo "# Seeded changes versus the checks ($TIER tier, VERIF_SEED=${VERIF_SEED:-1})"
echo
echo "Each change was written by an independent sub-agent that saw only the property text and a scratch worktree of /repo."
echo "Applied with \`git -C "$REPO" apply\`, checked with \`./check <property> $TIER\`, undone with \`git -C "$REPO" checkout -- .\`."
echo
echo "| seed | property | result | first failing oracle clause | cases until found |"
echo "|---|---|---|---|---|"
} > "$OUT"
missed=0
idx=-1
for d in seeded/*/; do
  id="$(basename "$d")"; [ -f "$d/patch.diff" ] || continue
  idx=$((idx+1)); if [ -n "$SH_I" ] && [ $((idx % SH_N)) -ne "$SH_I" ]; then continue; fi
  prop="${id%%-*}"; prop="${prop%%b}"
  git -C "$REPO" apply "$(readlink -f "$d/patch.diff")" || { echo "| $id | $prop | PATCH DOES NOT APPLY | | |" >> "$OUT"; continue; }
  out="$(./check "$prop" "$TIER" 2>&1)"; rc=$?
  git -C "$REPO" checkout -- .
  clause="$(echo "$out" | grep -E "^\s+\[|^violation of|crash confirmed" | head -1 | sed 's/|/\\|/g' | cut -c1-160)"
  evals="$(echo "$out" | grep -oE "evaluations=[0-9]+" | head -1)"
  if [ $rc -eq 1 ]; then
    res="caught"
    # keep the (shrunk) failing input as a regression input of that property: replayed first by every run
    f="$(ls replays/${prop}-*.case 2>/dev/null | head -1)"
    if [ -n "$f" ] && ! grep -q "^sig=crash" "$f"; then mkdir -p "regress/$prop"; cp "$f" "regress/$prop/seed-$id.case"; fi
  elif grep -q '"out_of_reach": true' "$d/meta.json" 2>/dev/null; then res="not detected (documented as out of reach, see meta.json)"
  else res="**MISSED (exit $rc)**"; missed=$((missed+1)); fi
  echo "| $id | $prop | $res | $clause | $evals |" >> "$OUT"
  echo "$id $prop rc=$rc $evals"
done
./check build >/dev/null 2>&1
echo >> "$OUT"; echo "missed: $missed" >> "$OUT"
echo "missed: $missed"
