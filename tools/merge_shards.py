#!/usr/bin/env python3
"""tools/merge_shards.py <dir with RESULTS.shard*.md>... : merge sharded tools/run_seeded.sh outputs into seeded/RESULTS.md"""
import sys, glob, os, re
root = os.path.dirname(os.path.dirname(os.path.abspath(__file__)))
rows, head = [], None
for d in sys.argv[1:]:
    for f in sorted(glob.glob(os.path.join(d, "RESULTS.shard*.md"))):
        lines = open(f).read().split("\n")
        if head is None:
            head = [l for l in lines[:8] if not l.startswith("| C")]
        rows += [l for l in lines if re.match(r"\| C\d\d", l)]
def key(r):
    m = re.match(r"\| (C\d\d)b?-(\d+)", r)
    return (m.group(1), int(m.group(2)))
rows.sort(key=key)
missed = sum("MISSED" in r for r in rows)
hdr = [l for l in head if l.strip() != ""]
out = [hdr[0], "", hdr[1], hdr[2] if len(hdr) > 2 and not hdr[2].startswith("|") else "", ""] if False else []
text = "\n".join(head).rstrip("\n") + "\n" + "\n".join(rows) + "\n\nmissed: %d\n" % missed
open(os.path.join(root, "seeded", "RESULTS.md"), "w").write(text)
print(len(rows), "rows, missed", missed)
