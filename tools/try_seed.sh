#!/bin/bash
# tools/try_seed.sh <patch.diff> <ID>[,<ID>...] [tier]   apply a seeded change to /repo, run the checks, undo it
set -u
REPO="${VERIF_REPO:-/repo}"
cd "$(dirname "$0")/.."
PATCH="$(readlink -f "$1")"; IDS="${2//,/ }"; TIER="${3:-quick}"
git -C "$REPO" diff --quiet || { echo "/repo is dirty"; exit 2; }
git -C "$REPO" apply "$PATCH" || { echo "patch does not apply"; exit 2; }
trap 'git -C "$REPO" checkout -- . ; git -C "$REPO" clean -fdq -- tests 2>/dev/null' EXIT
for id in $IDS; do
  out="$(./check "$id" "$TIER" 2>&1)"; rc=$?
  echo "== $id $TIER exit=$rc :: $(echo "$out" | grep -E "^\s+\[" | head -2 | cut -c1-220 | tr '\n' ' ')"
  echo "$out" | grep -E "quick:|thorough:|BUILD-FAILED|INCONCLUSIVE" | head -3
done
