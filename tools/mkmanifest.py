#!/usr/bin/env python3
"""Regenerates MANIFEST.json from the table below (keeps it schema-valid at all times)."""
import json, subprocess, os
ROOT = os.path.dirname(os.path.dirname(os.path.abspath(__file__)))
hook = subprocess.run(["git", "-C", "/repo", "log", "--format=%H", "--grep", "^verif hook", "-n", "5"], capture_output=True, text=True).stdout.split()

CHECKS = {
 "C01": dict(engine="hist", category="exploration", design="5 (C01), 4.1-4.3",
   text="Generated handle histories over all handle kinds and conversion paths (5 payload shapes x 2 feature configurations), compared step by step with a reference model of owners per allocation; the tracking allocator and the identity-tracked payload registry observe destruction and release exactly. Finds counter-examples and shrinks them; does not prove absence.",
   note="Trusted: the harness's tracking allocator, Tok registry and reference model; payload shapes are witnesses; sequences are sampled (quick <=48 ops, thorough <=160 ops).",
   technique="model-based property testing of operation histories (proptest), tracking-allocator + identity-payload oracle"),
 "C04": dict(engine="hist", category="exploration", design="5 (C04), 4.3",
   text="Generated handle histories; after every step every count accessor on every live handle, and counts read inside borrow callbacks, must equal the reference model's number of owning handles.",
   note="Trusted: the reference model's owner arithmetic (+1 per clone-style op, -1 per release, 0 otherwise).",
   technique="model-based property testing of operation histories (proptest), count accessors vs reference model"),
 "C02": dict(engine="sched", category="exploration", design="5 (C02), 4.4",
   text="Generated multi-thread clone/read/drop/convert/send programs executed under a harness-owned scheduler and an operational C++20/Rust memory model (stale loads, release sequences, fences) with vector-clock happens-before checking of every payload access, count access, destructor and deallocation. Samples schedules; shrinks counter-examples.",
   note="Trusted: the operational memory model in rt::sim (no load buffering), the cfg(triomphe_verif) atomic shim, the tracking allocator. Sampled schedules, 2-4 threads, <=8 ops per thread.",
   technique="schedule fuzzing (proptest-generated programs + schedule/staleness bytes) with a vector-clock race oracle"),
 "C03": dict(engine="hist+sched", category="exploration", design="5 (C03)",
   text="Histories: verdict of every uniqueness-gated API versus the reference model's owner count, same handle back on decline. Schedules: polling for uniqueness then writing must be ordered after all other threads' reads (vector clocks).",
   note="Trusted: reference model, operational memory model of rt::sim; sampled histories and schedules.",
   technique="model-based history testing + schedule fuzzing with a happens-before oracle (proptest)"),
 "C08": dict(engine="hist+sched", category="exploration", design="5 (C08)",
   text="Histories: make_mut/make_unique/OffsetArc::make_mut in place iff sole owner, else exactly one Clone into a fresh solely-owned block, all other handles keep reading the old value. Schedules: copy-on-write writes never race with or become visible to other threads' reads.",
   note="Trusted: reference model, Tok clone counter, operational memory model of rt::sim; sampled.",
   technique="model-based history testing + schedule fuzzing with a happens-before oracle (proptest)"),
 "C09": dict(engine="hist+sched", category="exploration", design="5 (C09)",
   text="Histories: unwrap family moves the very value out iff sole owner (identity-tracked, destructor not run, block freed), else same handle back. Schedules: racing unwraps/drops leave each value moved out to exactly one thread or destroyed exactly once.",
   note="Trusted: reference model, Tok registry, operational memory model of rt::sim; sampled.",
   technique="model-based history testing + schedule fuzzing with conservation and happens-before oracles (proptest)"),
 "C10": dict(engine="hist-thin", category="exploration", design="5 (C10)",
   text="Generated histories over ThinArc and all fat/protected/raw/unique/arc-swap views of the same allocations, element-by-element comparison (values, identities, addresses, recorded length, count) against the model after every step; wrong recorded lengths fed to into_thin; with_arc_mut callbacks that mutate, replace, swap or panic.",
   note="Trusted: reference model, Tok registry, tracking allocator; header/element shapes are witnesses (alignment <,=,>).",
   technique="model-based property testing of operation histories with fault injection in callbacks (proptest)"),
 "C05": dict(engine="matrix", category="exploration", design="5 (C05)",
   text="Generated points of a static shape matrix (8 header x 12 element shapes incl. ZST / padded / over-aligned, 14 lengths, every constructor, every release path); the oracle is observed from the tracking allocator: block geometry versus the addresses the handle exposes, red zones, dealloc layout == alloc layout, exactly one free.",
   note="Trusted: the tracking allocator; shapes are sampled (8x12), not all 0..64 x 1..64.",
   technique="property-based testing over a generated shape/constructor/release-path matrix with an allocator-level oracle (proptest)"),
 "C11": dict(engine="matrix+hist", category="exploration", design="5 (C11)",
   text="Matrix of payload shapes x handle kinds x into/from pairings with clones and moves in between (round-trip oracle: same block, contents, count; as_ptr == Deref address == into_raw; heap_ptr == allocator block start; handle sizes and niches; bit patterns) plus histories checking address stability across every conversion.",
   note="Trusted: tracking allocator; ThinArc::as_ptr/into_raw read as the block start (see DESIGN.md C11).",
   technique="round-trip property testing over a generated shape matrix + model-based histories (proptest)"),
 "C12": dict(engine="matrix+hist", category="exploration", design="5 (C12)",
   text="Every ordered pair of shapes, both constructors, generated union histories with variant accessors, addresses, counts and comparisons checked after every op; final free layout checked by the allocator; identity-tracked unions inside the sized-world histories (per-type magic detects a destructor of the wrong type).",
   note="Trusted: tracking allocator, Tok registry; shapes sampled.",
   technique="model-based property testing of union histories over a generated shape-pair matrix (proptest)"),
 "C16": dict(engine="c16-children", category="exploration", design="5 (C16)",
   text="Child processes over the complete grid of 16 clone entry points x the 10 listed starting counts x {std, no_std}, plus generated boundary-biased counts; the counter's address is learnt through the shim and preset; termination signal and output decide.",
   note="Trusted: presetting the count word is equivalent to having forgotten that many handles; SIGABRT/SIGILL both count as abort; at exactly isize::MAX either clean outcome is accepted (the code documents the abort as 'not necessarily at exactly MAX_REFCOUNT + 1').",
   technique="enumerated + generated child-process fault tests with a termination-status oracle (proptest)"),
 "C14": dict(engine="cmp", category="exploration", design="5 (C14), 6",
   text="Exhaustive enumeration of all ordered pairs from the small domain (headers x slices of length <=3; u8, f32 with NaN and -0.0, an Eq-only type) across 13 handle/payload kinds, same and distinct allocations, equal and unequal recorded lengths, plus random larger values; differential oracle against the plain values for every comparison operator, coherence among the operators, a recording Hasher, formatting and map lookups through Borrow.",
   note="Trusted: Rust's tuple/slice comparison on plain values as the reference. Two genuine defects found by this check were repaired in /repo (see KNOWN_FINDINGS.txt, 'fixed:' lines).",
   technique="exhaustive small-domain enumeration + random differential testing against plain values (proptest)"),
 "C17": dict(engine="serde", category="exploration", design="5 (C17)",
   text="Generated recursive values driving every Serializer entry point; a recording serializer / deserializer with failure injected at the k-th call; handle versus plain value must produce identical call logs, results and errors; deserialised handles are fresh sole owners; no tracked block survives an error or the results.",
   note="Trusted: the harness's recording serializer/deserializer and serde's value deserializers; default feature configuration.",
   technique="differential property testing with k-th-call fault injection (proptest)"),
 "C15": dict(engine="uninit", category="exploration", design="5 (C15)",
   text="Generated (API, length, mask of written slots, sharing state, fate) over all uninitialised constructors with identity-tracked header and elements: dropping before assume_init runs no element destructor and touches no unwritten slot, the header dies exactly once; assume_init keeps block, count and contents; afterwards every element dies exactly once; deprecated writers panic iff shared and change nothing.",
   note="Trusted: Tok registry (drops per id), 0xA5 fill + magic check for unwritten slots, tracking allocator.",
   technique="property-based testing over generated write-masks and sharing states with an identity-tracking oracle (proptest)"),
 "C06": dict(engine="ctor", category="exploration", design="5 (C06)",
   text="Generated (constructor, boundary-biased length 0..300, spare capacity, size_hint regime, element/header shape) over every moving and copying constructor with identity-tracked elements: contents, order, number, header and recorded length read back; each input destroyed exactly once by the resulting allocation; the source container's storage released during the call.",
   note="Trusted: Tok registry, tracking allocator's per-call effect list.",
   technique="property-based round-trip testing of constructors with identity-tracked payloads (proptest)"),
 "C07": dict(engine="fault", category="fault_enumeration", design="5 (C07)",
   text="Panic injected at the k-th invocation of every user callback (iterator next/len/size_hint, Clone, closures, comparison/hash/format), lying and changing length reports within +-2, and allocation failure at the k-th allocation of each constructor (complete grid, child processes); after the unwind every surviving handle is valid with an accurate count, every value is destroyed at most once, no unwritten slot is read or destroyed, only the half-built block of a panicking constructor may leak.",
   note="Trusted: Tok registry + 0xA5 fill/magic check, tracking allocator, child-process termination status. k is sampled by proptest over the full reachable range for <=6 items; the allocation-failure grid is enumerated.",
   technique="fault injection at generated crash points with an at-most-once / validity oracle (proptest + child processes)"),
 "C13": dict(engine="probes", category="exploration", design="5 (C13)",
   text="Generated probe programs compiled by rustc against the rlib built from /repo: complete grid of 12 handle kinds x auto-trait witnesses x {Send,Sync}, generic probes for every bound set, dyn bounds, 32 borrow/lifetime/dropck templates with legal twins, and proptest-generated nested payload types; expected accept/reject from an independent auto-trait model.",
   note="Trusted: rustc as the executor, the hand-written auto-trait table for the std types of the grammar; default features; programs outside the grammar are not decided.",
   technique="generated-program testing (proptest grammar over types + templates) with rustc accept/reject as the observation and an independent model as the oracle"),
}
NOT_YET = {
}
ALL = ["C%02d" % i for i in range(1, 18)]
checks = []
for pid in ALL:
    if pid not in CHECKS: continue
    c = CHECKS[pid]
    checks.append({
        "property_id": pid,
        "quick_cmd": f"./check {pid} quick",
        "thorough_cmd": f"./check {pid} thorough",
        "evidence_file": f"/verif/evidence/{pid}.json",
        "replay_cmd_template": f"./check replay {pid} {{path}}",
        "engine": c["engine"],
        "level_claimed": {"category": c["category"], "text": c["text"], "design_ref": "DESIGN.md section " + c["design"]},
        "level_note": c["note"],
        "technique": c["technique"],
    })
na = [{"property_id": p, "reason": NOT_YET.get(p, "check not built yet in this revision of /verif (planned, see DESIGN.md section 11); nothing is claimed for it")} for p in ALL if p not in CHECKS]
m = {
 "version": 1,
 "setup_cmd": "./setup.sh",
 "hooks": {
   "guard": "cfg(triomphe_verif)",
   "enable": "RUSTFLAGS='--cfg triomphe_verif' (set by ./check for every harness build; the harness defines the two extern hook functions)",
   "baseline_off_cmd": "cd /repo && cargo test --workspace --no-fail-fast --offline",
   "source_commits": hook,
   "add_only": True,
 },
 "engines": [
   {"name": "sched", "path": "harness/hist/src/sched.rs + harness/rt/src/sim.rs", "serves_properties": ["C02", "C03", "C08", "C09"], "kind_free_text": "schedule engine: generated thread programs under a harness-owned scheduler, operational memory model with stale loads, vector-clock race oracle"},
   {"name": "hist-thin", "path": "harness/hist/src/hist_thin.rs", "serves_properties": ["C10", "C01", "C03", "C04"], "kind_free_text": "model-based history engine for the thin world (ThinArc and its fat views)"},
   {"name": "c16-children", "path": "harness/eng/src/c16.rs", "serves_properties": ["C16"], "kind_free_text": "child-process outcome engine"},
   {"name": "cmp", "path": "harness/eng/src/cmp.rs", "serves_properties": ["C14"], "kind_free_text": "comparison/hash/format differential engine, exhaustive over a small domain + random"},
   {"name": "serde", "path": "harness/eng/src/serde_eng.rs", "serves_properties": ["C17"], "kind_free_text": "recording serializer/deserializer differential engine"},
   {"name": "uninit", "path": "harness/eng/src/uninit.rs", "serves_properties": ["C15"], "kind_free_text": "uninitialised-construction engine"},
   {"name": "ctor", "path": "harness/eng/src/ctor.rs", "serves_properties": ["C06"], "kind_free_text": "constructor round-trip engine"},
   {"name": "fault", "path": "harness/eng/src/ctor.rs", "serves_properties": ["C07"], "kind_free_text": "callback fault-injection engine + allocation-failure children"},
   {"name": "probes", "path": "harness/tv/src/probes.rs", "serves_properties": ["C13"], "kind_free_text": "probe-program generator + rustc batch runner"},
   {"name": "matrix", "path": "harness/mx/src/lib.rs", "serves_properties": ["C05", "C11", "C12"], "kind_free_text": "static shape matrix engine with an allocator-level observed oracle"},
   {"name": "hist", "path": "harness/hist/src/hist_sized.rs", "serves_properties": ["C01", "C03", "C04", "C08", "C09"], "kind_free_text": "model-based history engine (proptest-generated op sequences, reference model, tracking allocator, identity-tracked payloads)"},
 ],
 "checks": checks,
 "not_applicable": na,
 "notes": "All checks are property-based testing / fuzzing: generated inputs, histories, schedules, faults against explicit oracles. ./check <ID> <tier> rebuilds the harness from /repo's working tree with --cfg triomphe_verif. Exit 2 = inconclusive (build failure, watchdog), never a violation.",
}
json.dump(m, open(os.path.join(ROOT, "MANIFEST.json"), "w"), indent=1)
print("wrote MANIFEST.json with", len(checks), "checks,", len(na), "not_applicable")
