#!/usr/bin/env python3
"""Regenerates MANIFEST.json from the table below (keeps it schema-valid at all times)."""
import json, subprocess, os
ROOT = os.path.dirname(os.path.dirname(os.path.abspath(__file__)))
hook = subprocess.run(["git", "-C", "/repo", "log", "--format=%H", "--grep", "^verif hook", "-n", "5"], capture_output=True, text=True).stdout.split()

CHECKS = {
 "C01": dict(engine="hist", category="exploration", design="5 (C01), 4.1-4.3",
   text="Generated handle histories over all handle kinds and conversion paths (5 payload shapes x 2 feature configurations), compared step by step with a reference model of owners per allocation; the tracking allocator and the identity-tracked payload registry observe destruction and release exactly. Finds counter-examples and shrinks them; does not prove absence.",
   note="Trusted: the harness's tracking allocator, Tok registry and reference model; payload shapes are witnesses; sequences are sampled (quick <=48 ops, thorough <=160 ops).",
   technique="model-based property testing of operation histories (proptest), tracking-allocator + identity-payload oracle"),
 "C04": dict(engine="hist", category="exploration", design="5 (C04), 4.3",
   text="Generated handle histories; after every step every count accessor on every live handle, and counts read inside borrow callbacks, must equal the reference model's number of owning handles.",
   note="Trusted: the reference model's owner arithmetic (+1 per clone-style op, -1 per release, 0 otherwise).",
   technique="model-based property testing of operation histories (proptest), count accessors vs reference model"),
}
NOT_YET = {
}
ALL = ["C%02d" % i for i in range(1, 18)]
checks = []
for pid in ALL:
    if pid not in CHECKS: continue
    c = CHECKS[pid]
    checks.append({
        "property_id": pid,
        "quick_cmd": f"./check {pid} quick",
        "thorough_cmd": f"./check {pid} thorough",
        "evidence_file": f"/verif/evidence/{pid}.json",
        "replay_cmd_template": f"./check replay {pid} {{path}}",
        "engine": c["engine"],
        "level_claimed": {"category": c["category"], "text": c["text"], "design_ref": "DESIGN.md section " + c["design"]},
        "level_note": c["note"],
        "technique": c["technique"],
    })
na = [{"property_id": p, "reason": NOT_YET.get(p, "check not built yet in this revision of /verif (planned, see DESIGN.md section 11); nothing is claimed for it")} for p in ALL if p not in CHECKS]
m = {
 "version": 1,
 "setup_cmd": "./setup.sh",
 "hooks": {
   "guard": "cfg(triomphe_verif)",
   "enable": "RUSTFLAGS='--cfg triomphe_verif' (set by ./check for every harness build; the harness defines the two extern hook functions)",
   "baseline_off_cmd": "cd /repo && cargo test --workspace --no-fail-fast --offline",
   "source_commits": hook,
   "add_only": True,
 },
 "engines": [
   {"name": "hist", "path": "harness/tv/src/hist_sized.rs", "serves_properties": ["C01", "C04"], "kind_free_text": "model-based history engine (proptest-generated op sequences, reference model, tracking allocator, identity-tracked payloads)"},
 ],
 "checks": checks,
 "not_applicable": na,
 "notes": "All checks are property-based testing / fuzzing: generated inputs, histories, schedules, faults against explicit oracles. ./check <ID> <tier> rebuilds the harness from /repo's working tree with --cfg triomphe_verif. Exit 2 = inconclusive (build failure, watchdog), never a violation.",
}
json.dump(m, open(os.path.join(ROOT, "MANIFEST.json"), "w"), indent=1)
print("wrote MANIFEST.json with", len(checks), "checks,", len(na), "not_applicable")
