#!/usr/bin/env python3
"""tools/import_seed.py <property> <worktree dir> <i> <detected-by json> : copy a confirmed seeded change into /verif/seeded/<property>-<n>/"""
import sys, os, json, shutil, glob
prop, wt, i = sys.argv[1], sys.argv[2], sys.argv[3]
extra = json.loads(sys.argv[4]) if len(sys.argv) > 4 else {}
root = os.path.join(os.path.dirname(os.path.dirname(os.path.abspath(__file__))), "seeded")
os.makedirs(root, exist_ok=True)
n = 1
while os.path.exists(os.path.join(root, f"{prop}-{n}")): n += 1
d = os.path.join(root, f"{prop}-{n}")
os.makedirs(d)
shutil.copy(os.path.join(wt, f"seed{i}.diff"), os.path.join(d, "patch.diff"))
shutil.copy(os.path.join(wt, f"seed{i}_demo.rs"), os.path.join(d, "demo.rs"))
md = open(os.path.join(wt, f"seed{i}.md")).read()
open(os.path.join(d, "NOTES.md"), "w").write(md)
meta = {
  "id": f"{prop}-{n}",
  "breaks_property": prop,
  "origin": "independent sub-agent given only the property text and a scratch worktree of /repo (nothing from /verif)",
  "files": {"patch": "patch.diff", "demonstration": "demo.rs (placed at tests/demo.rs; cargo test --offline --test demo)", "author_notes": "NOTES.md"},
  "needs_to_manifest": extra.get("needs", "see NOTES.md"),
  "confirmed_by_me": extra.get("confirmed", {"suite_with_change": "39 unit + 3 doc tests pass", "no_default_features_build": "ok", "demo_with_change": "fails", "demo_without_change": "passes", "how": "tools/confirm_seed.sh in a scratch worktree under /tmp"}),
  "what_i_ran": extra.get("ran", ["tools/confirm_seed.sh <worktree> <i>", "tools/try_seed.sh seeded/<id>/patch.diff <property> (git -C /repo apply; ./check <property> quick; git -C /repo checkout -- .)"]),
  "detected_by": extra.get("detected", {}),
}
json.dump(meta, open(os.path.join(d, "meta.json"), "w"), indent=1)
print(d)
