#!/bin/bash
# tools/confirm_seed.sh <worktree dir> <i> [features]  : independent confirmation of a seeded change
#   suite green with the change, demo fails with it, demo passes without it
W="$1"; I="$2"; FEAT="${3:-}"
cd "$W" || exit 2
git checkout -q -- . ; rm -rf tests
git apply "seed$I.diff" || { echo "APPLY-FAILED"; exit 2; }
s1=$(cargo test --offline $FEAT 2>&1 | grep -E "^test result" | tr '\n' ' ')
b2=$(cargo build --offline --no-default-features 2>&1 | tail -1)
mkdir -p tests; cp "seed${I}_demo.rs" tests/demo.rs
d1=$(timeout 300 cargo test --offline $FEAT --test demo 2>&1 | grep -E "^test result|error(\[|:)|signal|SIG" | head -3 | tr '\n' ' ')
git checkout -q -- .
d0=$(timeout 300 cargo test --offline $FEAT --test demo 2>&1 | grep -E "^test result|error(\[|:)" | head -3 | tr '\n' ' ')
rm -rf tests
echo "suite-with-change: $s1"
echo "nostd-build: $b2"
echo "demo-with-change: $d1"
echo "demo-without: $d0"
